HOOK_COMMITS = []
NOT_APPLICABLE = {}
E1_NOTE = "Trusts: the Go toolchain, rapid's generator/shrinker, cosmos-sdk baseapp/store as the execution substrate, and the harness' state readers (which use the repository's own keeper getters). Histories are bounded (blocks, txs per block, a fixed set of pools/assets); absence of violations beyond the generated histories is not established."
META = {
    "C01": dict(engine="E1-chain", design_ref="§3 C01", technique="stateful property-based testing (rapid): generated tx histories on the real app, invariant over every committed block",
                text="Generated search over multi-block, multi-module transaction histories executed through the real ABCI path; after every committed block the pool book is compared with the bank balance of the pool address (harness-known donations are the only tolerated surplus) and the per-denom liquidity total with the sum of reserves. Exploration-level: held on every generated history; failures shrink to a replayable trace.",
                note=E1_NOTE),
}
