HOOK_COMMITS = []
NOT_APPLICABLE = {}
E1_NOTE = "Trusts: the Go toolchain, rapid's generator/shrinker, cosmos-sdk baseapp/store as the execution substrate, and the harness' state readers (which use the repository's own keeper getters). Histories are bounded (blocks, txs per block, a fixed set of pools/assets); absence of violations beyond the generated histories is not established."
E1_TECH = "stateful property-based testing (pgregory.net/rapid): generated signed-tx histories on the real app via ABCI, oracle evaluated on every committed block, shrunk trace replay"
def e1(ref, text):
    return dict(engine="E1-chain", design_ref=ref, technique=E1_TECH, text=text + " Exploration-level: held on every generated history; failures shrink to a replayable trace.", note=E1_NOTE)
META = {
    "C01": e1("§3 C01", "After every committed block of a generated multi-module history the pool book is compared with the bank balance of the pool address (harness-known donations are the only tolerated surplus) and the per-denom liquidity total with the sum of reserves."),
    "C02": e1("§3 C02", "After every block: pool TotalShares == bank supply of the share denom == sum of accounts' committed shares == commitment custody balance; supply moves only in blocks with a join-type / exit-type event on that pool."),
    "C06": e1("§3 C06", "After every block: stablestake TotalValue == module cash + sum over stored debts of (borrowed + interest stacked - interest paid), exactly, across bonds, unbonds, leveragelp opens/closes/liquidations and long accrual gaps."),
    "C08": e1("§3 C08", "After every block: leveragelp pool total == sum of positions; each position's shares == shares committed at its own address; open counter == stored positions; addresses of closed positions hold no shares."),
    "C09": e1("§3 C09", "After every block: perpetual pool custody/liabilities/collateral per side and asset == sums over stored MTPs; open counter == stored MTPs; amm reserve >= total custody per asset."),
    "C11": e1("§3 C11", "After every block: accounted pool total == amm reserve + perpetual liabilities - custody, and the non-amm part == liabilities - custody, for every asset."),
    "C12": e1("§3 C12", "After every block: TotalCommitted == sum of accounts per denom (known finding F04 compensated exactly), custody >= committed + claimed for bank-backed denoms, and a harness-kept lock model (oracle-pool shares locked one hour) is never bypassed by an owner withdrawal."),
    "C13": e1("§3 C13", "After every block, per bank-backed reward denom: module balance - recomputed credited-unclaimed rewards - unfunded incentive remainder is >= 0 and never decreases from block to block."),
    "C15": e1("§3 C15", "Supply ledger across every block: external denoms unchanged; uelys minted at most what the linear vesting schedules of the block's claimers (and the protocol's own provider-reward claimer) release plus vest-now amounts; share denoms move only with join/exit/bond/unbond events."),
    "C18": e1("§3 C18", "Fault profile (expiring price feeds, gaps up to 40 days, fees in any denom, tiny/lopsided pools, parameters at the edge of what validation admits): FinalizeBlock and Commit must not return an error or panic, and blocks containing failed transactions leave the pool/share/vault books balanced."),
}
