#!/usr/bin/env python3
"""Regenerates MANIFEST.json from checks_config.py and manifest_meta.py (keeps it valid at all times)."""
import json, os, sys
ROOT = os.path.dirname(os.path.abspath(__file__))
sys.path.insert(0, ROOT)
from checks_config import CHECKS
from manifest_meta import META, NOT_APPLICABLE, HOOK_COMMITS

props = [json.loads(l) for l in open(os.path.join(ROOT, "properties.jsonl"))]
baseline = json.load(open("/root/.vp/BASELINE.json"))["cmd"] if os.path.exists("/root/.vp/BASELINE.json") else "cd /repo && go test ./..."
checks = []
for p in props:
    pid = p["id"]
    if pid not in CHECKS:
        continue
    m = META[pid]
    checks.append(dict(
        property_id=pid,
        quick_cmd=f"./check {pid} --tier quick",
        thorough_cmd=f"./check {pid} --tier thorough",
        evidence_file=f"/verif/evidence/{pid}.json",
        replay_cmd_template=f"./check {pid} --replay {{path}}",
        engine=m["engine"],
        level_claimed=dict(category="exploration", text=m["text"], design_ref=m["design_ref"]),
        level_note=m["note"],
        technique=m["technique"],
    ))
na = [dict(property_id=p["id"], reason=NOT_APPLICABLE.get(p["id"], "check not built yet in this session; see DESIGN.md")) for p in props if p["id"] not in CHECKS]
man = dict(
    version=1,
    setup_cmd="./check --build",
    hooks=dict(guard="verif", enable="go test -tags verif (the harness module replaces github.com/elys-network/elys => /repo and compiles /repo's working tree)",
               baseline_off_cmd=baseline, source_commits=HOOK_COMMITS, add_only=True),
    engines=[
        dict(name="E1-chain", path="/verif/harness (world.go, setup.go, ops.go, runner.go, snapshot.go, inv_*.go)", serves_properties=[c["property_id"] for c in checks if META[c["property_id"]]["engine"].startswith("E1")],
             kind_free_text="rapid-generated multi-block histories of signed transactions executed on the real ElysApp through InitChain/FinalizeBlock/Commit; invariants evaluated on committed state after every block; shrunk trace replayable without rapid"),
        dict(name="E2-puremath", path="/verif/harness (pure_*.go)", serves_properties=[c["property_id"] for c in checks if META[c["property_id"]]["engine"].startswith("E2")],
             kind_free_text="rapid-generated pools/amounts against exact big.Rat reference models of the AMM formulas"),
        dict(name="E3-keeper", path="/verif/harness (keeper_*.go)", serves_properties=[c["property_id"] for c in checks if META[c["property_id"]]["engine"].startswith("E3")],
             kind_free_text="rapid state machines over real keepers/msg servers on cached contexts of one ElysApp, compared with reference models"),
    ],
    checks=checks,
    not_applicable=na,
    notes="Technique family: property-based testing and fuzzing only (pgregory.net/rapid v1.3.0). See DESIGN.md.",
)
json.dump(man, open(os.path.join(ROOT, "MANIFEST.json"), "w"), indent=1)
print("checks:", [c["property_id"] for c in checks], "not_applicable:", [n["property_id"] for n in na])
