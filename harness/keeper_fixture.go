package harness

import (
	"crypto/sha256"
	"encoding/hex"
	"sync"

	sdk "github.com/cosmos/cosmos-sdk/types"
)

// E3: keeper-level engine. One world per process; every case runs on a cache context of
// the prepared base state, so cases are independent and cost micro- to milliseconds.
var (
	fixOnce sync.Once
	fixW    *World
	fixErr  error
)

func keeperFixture() (*World, error) {
	fixOnce.Do(func() { fixW, fixErr = BuildWorld(DefaultWorldSpec()) })
	return fixW, fixErr
}

// caseCtx: a fresh cache context over the fixture's base state.
func caseCtx(w *World) sdk.Context {
	ctx, _ := w.SetupCtx().CacheContext()
	return ctx
}

// exec runs a message through the real router (ValidateBasic first, like the ante
// handler) on a cache context of ctx; writes only on success, recovers panics like runTx.
func execMsg(w *World, ctx sdk.Context, msg sdk.Msg) (err error, panicked bool) {
	if vb, ok := msg.(sdk.HasValidateBasic); ok {
		if e := vb.ValidateBasic(); e != nil {
			return e, false
		}
	}
	h := w.App.MsgServiceRouter().Handler(msg)
	if h == nil {
		return errNoHandler, false
	}
	cctx, write := ctx.CacheContext()
	defer func() {
		if r := recover(); r != nil {
			err, panicked = &panicErr{r}, true
		}
	}()
	if _, e := h(cctx, msg); e != nil {
		return e, false
	}
	write()
	return nil, false
}

type panicErr struct{ v any }

func (p *panicErr) Error() string { return "panic: " + sprint(p.v) }

var errNoHandler = &panicErr{"no handler registered"}

// summary accumulates evidence for high-volume keeper/pure checks in-process and emits
// one summary line at the end of the test.
type summary struct {
	mu       sync.Mutex
	Evals    int
	NT       map[string]bool
	Labels   map[string]int
	Samples  []any
	Excluded map[string]int
	Known    map[string]bool
}

func newSummary() *summary {
	return &summary{NT: map[string]bool{}, Labels: map[string]int{}, Excluded: map[string]int{}, Known: map[string]bool{}}
}

func (s *summary) record(key string, nontrivial bool, labels []string, sample any) {
	s.mu.Lock()
	defer s.mu.Unlock()
	s.Evals++
	for _, l := range labels {
		s.Labels[l]++
	}
	if nontrivial {
		h := sha256.Sum256([]byte(key))
		k := hex.EncodeToString(h[:8])
		if !s.NT[k] {
			s.NT[k] = true
			if len(s.Samples) < 4 && sample != nil {
				s.Samples = append(s.Samples, sample)
			}
		}
	}
}

func (s *summary) addExcluded(ex map[string]int, known map[string]bool) {
	s.mu.Lock()
	defer s.mu.Unlock()
	for k, v := range ex {
		s.Excluded[k] += v
	}
	for k := range known {
		s.Known[k] = true
	}
}

func (s *summary) emit() {
	s.mu.Lock()
	defer s.mu.Unlock()
	hs := make([]string, 0, len(s.NT))
	for k := range s.NT {
		hs = append(hs, k)
	}
	EmitStats(map[string]any{"summary": true, "evaluations": s.Evals, "nontrivial_hashes": hs, "labels": s.Labels, "samples": s.Samples, "excluded": s.Excluded})
	for _, id := range sortedKeys(s.Known) {
		EmitStats(map[string]any{"known_replay": id})
	}
}
