package harness

import (
	"fmt"
	"math"
	"reflect"
	"strings"

	sdkmath "cosmossdk.io/math"
	sdk "github.com/cosmos/cosmos-sdk/types"
	gogoproto "github.com/cosmos/gogoproto/proto"

	ammtypes "github.com/elys-network/elys/x/amm/types"
	aptypes "github.com/elys-network/elys/x/assetprofile/types"
	ctypes "github.com/elys-network/elys/x/commitment/types"
	lptypes "github.com/elys-network/elys/x/leveragelp/types"
	mctypes "github.com/elys-network/elys/x/masterchef/types"
	oracletypes "github.com/elys-network/elys/x/oracle/types"
	paramtypes "github.com/elys-network/elys/x/parameter/types"
	tokenomicstypes "github.com/elys-network/elys/x/tokenomics/types"
)

// "Parameter settings permitted by validation": governance may set any module parameters that the
// module's own validation (Params.Validate, the message's ValidateBasic and the UpdateParams handler)
// accepts. The generator below takes a module's CURRENT parameters, overwrites one or two leaf fields
// with boundary values, keeps the result only if all three validations accept it, and hands it to the
// history as a governance action between two blocks.

var paramModules = []string{"amm", "burner", "estaking", "leveragelp", "masterchef", "oracle", "perpetual", "stablestake", "tradeshield"}

func moduleParams(w *World, ctx sdk.Context, module string) any {
	a := w.App
	switch module {
	case "amm":
		return a.AmmKeeper.GetParams(ctx)
	case "perpetual":
		return a.PerpetualKeeper.GetParams(ctx)
	case "leveragelp":
		return a.LeveragelpKeeper.GetParams(ctx)
	case "stablestake":
		return a.StablestakeKeeper.GetParams(ctx)
	case "masterchef":
		return a.MasterchefKeeper.GetParams(ctx)
	case "oracle":
		return a.OracleKeeper.GetParams(ctx)
	case "tradeshield":
		return a.TradeshieldKeeper.GetParams(ctx)
	case "burner":
		return a.BurnerKeeper.GetParams(ctx)
	case "estaking":
		return a.EstakingKeeper.GetParams(ctx)
	}
	return nil
}

var (
	pgDecType = reflect.TypeOf(sdkmath.LegacyDec{})
	pgIntType = reflect.TypeOf(sdkmath.Int{})
)

// drawModeFields is switched on by the C18 parameter profile only.
var drawModeFields = false

type paramLeaf struct {
	path string
	v    reflect.Value
}

// names of fields that are bookkeeping state kept inside a Params object, not settings
var paramStateFields = map[string]bool{"TotalValue": true, "InterestRate": true, "RedemptionRate": true, "TotalCommitted": true}

// paramModeFields: feature switches that replace a DEFINITION some listed property is stated in (with
// EnableTakeProfitCustodyLiabilities the accounted balance is by design reserve + L - C + take-profit custody -
// take-profit liabilities, not C11's formula). They are drawn only where no property depends on the definition
// (block processing must survive them, replicas must agree under them: C18, C19).
var paramModeFields = map[string]bool{"EnableTakeProfitCustodyLiabilities": true}

func collectLeaves(v reflect.Value, path string, depth int, out *[]paramLeaf) {
	if depth > 4 {
		return
	}
	switch v.Type() {
	case pgDecType, pgIntType:
		*out = append(*out, paramLeaf{path, v})
		return
	}
	switch v.Kind() {
	case reflect.Bool, reflect.Int32, reflect.Int64, reflect.Uint32, reflect.Uint64:
		*out = append(*out, paramLeaf{path, v})
	case reflect.Ptr:
		if !v.IsNil() && v.Type().Elem().Kind() == reflect.Struct {
			collectLeaves(v.Elem(), path, depth+1, out)
		}
	case reflect.Struct:
		for i := 0; i < v.NumField(); i++ {
			f := v.Type().Field(i)
			if f.PkgPath != "" || strings.HasPrefix(f.Name, "XXX_") || paramStateFields[f.Name] || (paramModeFields[f.Name] && !drawModeFields) {
				continue
			}
			collectLeaves(v.Field(i), path+"."+f.Name, depth+1, out)
		}
	case reflect.Slice:
		for i := 0; i < v.Len() && i < 3; i++ {
			collectLeaves(v.Index(i), fmt.Sprintf("%s[%d]", path, i), depth+1, out)
		}
	}
}

var (
	pgInts = []int64{0, 1, 2, 3, 7, 100, 86400, 1_000_000_000, math.MaxInt64 / 4}
	pgDecs = []string{"0", "0.000000000000000001", "0.000001", "0.01", "0.5", "0.99", "1", "1.000000000000000001", "1.5", "2", "10", "1000", "1000000000000"}
	pgBigs = []string{"0", "1", "1000", "1000000000000", "1000000000000000000000000000000"}
)

// moderateParams: outside the C18 parameter profile (where ANY accepted setting must leave block processing
// alive) proposals stay within magnitudes a governance would plausibly vote for: rates, factors and portions up
// to 2, counters up to 1e9. The accounting properties are not stated for a funding rate of 1e12 per year, under
// which positions' custody simply goes negative.
var moderateParams = true

func setBoundary(g *G, l paramLeaf) string {
	v := l.v
	decs, ints, bigs := pgDecs, pgInts, pgBigs
	if moderateParams {
		decs, ints, bigs = pgDecs[:10], pgInts[:8], pgBigs[:4]
	}
	switch v.Type() {
	case pgDecType:
		s := decs[g.Pick("pg/dec", len(decs))]
		v.Set(reflect.ValueOf(sdkmath.LegacyMustNewDecFromStr(s)))
		return s
	case pgIntType:
		s := bigs[g.Pick("pg/int", len(bigs))]
		n, _ := sdkmath.NewIntFromString(s)
		v.Set(reflect.ValueOf(n))
		return s
	}
	switch v.Kind() {
	case reflect.Bool:
		v.SetBool(!v.Bool())
		return fmt.Sprint(v.Bool())
	case reflect.Int32, reflect.Int64:
		n := ints[g.Pick("pg/i", len(ints))]
		if v.Kind() == reflect.Int32 && n > math.MaxInt32 {
			n = math.MaxInt32
		}
		v.SetInt(n)
		return fmt.Sprint(n)
	case reflect.Uint32, reflect.Uint64:
		n := ints[g.Pick("pg/u", len(ints))]
		if v.Kind() == reflect.Uint32 && n > math.MaxUint32 {
			n = math.MaxUint32
		}
		v.SetUint(uint64(n))
		return fmt.Sprint(n)
	}
	return ""
}

func callValidate(p reflect.Value) (err error) {
	defer func() {
		if r := recover(); r != nil {
			err = fmt.Errorf("validate panicked: %v", r)
		}
	}()
	m := p.MethodByName("Validate")
	if !m.IsValid() && p.CanAddr() {
		m = p.Addr().MethodByName("Validate")
	}
	if !m.IsValid() || m.Type().NumIn() != 0 || m.Type().NumOut() != 1 {
		return nil
	}
	if e, ok := m.Call(nil)[0].Interface().(error); ok && e != nil {
		return e
	}
	return nil
}

// GenParamChange draws one governance parameter change that every validation layer accepts on the
// current state; nil if the drawn candidate is refused (that is the validation working).
func GenParamChange(h *History, g *G) *EnvAction {
	return GenParamChangeFor(h, g, paramModules[g.Pick("pg/module", len(paramModules))])
}

// GenParamChangeFor: the proposal's Params object is built either from the module's current parameters or – as
// real proposals are, which are written some blocks before they execute – from a snapshot of them taken at an
// earlier block of this history (so that any bookkeeping a module keeps inside its Params object is stale in it).
func GenParamChangeFor(h *History, g *G, module string) *EnvAction {
	w := h.W
	ctx := w.ReadCtx()
	cur := moduleParams(w, ctx, module)
	if cur == nil {
		return nil
	}
	pv := reflect.New(reflect.TypeOf(cur))
	pv.Elem().Set(reflect.ValueOf(cur))
	pm, ok := pv.Interface().(gogoproto.Message)
	if !ok {
		return nil
	}
	// deep copy through the wire format (slices and pointers inside Params must not alias keeper memory)
	bz, err := gogoproto.Marshal(pm)
	if err != nil {
		return nil
	}
	key := "params-snapshots/" + module
	snaps, _ := h.Ext[key].([][]byte)
	snaps = append(snaps, bz)
	h.Ext[key] = snaps
	from := bz
	if len(snaps) > 1 && g.Bool("pg/stale?") {
		from = snaps[g.Pick("pg/stale", len(snaps))]
		h.Labels["param-change-from-stale-snapshot"]++
	}
	np := reflect.New(reflect.TypeOf(cur))
	if err := gogoproto.Unmarshal(from, np.Interface().(gogoproto.Message)); err != nil {
		return nil
	}
	pv = np
	var leaves []paramLeaf
	collectLeaves(pv.Elem(), module, 0, &leaves)
	if len(leaves) == 0 {
		return nil
	}
	n := []int{0, 1, 1, 1, 2}[g.Pick("pg/nleaves", 5)] // 0 = the snapshot is resubmitted as it is
	desc := []string{module + " params"}
	for i := 0; i < n; i++ {
		l := leaves[g.Pick("pg/leaf", len(leaves))]
		desc = append(desc, l.path+"="+setBoundary(g, l))
	}
	h.Labels["param-change-drawn"]++
	if err := callValidate(pv); err != nil {
		h.Labels["param-change-refused-by-validate"]++
		return nil
	}
	url := "/elys." + module + ".MsgUpdateParams"
	proto, err := w.App.InterfaceRegistry().Resolve(url)
	if err != nil {
		return nil
	}
	msg, ok := proto.(sdk.Msg)
	if !ok {
		return nil
	}
	rv := reflect.ValueOf(msg).Elem()
	if f := rv.FieldByName("Authority"); f.IsValid() {
		f.SetString(GovAddr())
	}
	f := rv.FieldByName("Params")
	if !f.IsValid() {
		return nil
	}
	if f.Kind() == reflect.Ptr {
		f.Set(pv)
	} else {
		f.Set(pv.Elem())
	}
	if vb, ok := msg.(sdk.HasValidateBasic); ok {
		if err := safeCall(func() error { return vb.ValidateBasic() }); err != nil {
			h.Labels["param-change-refused-by-validate"]++
			return nil
		}
	}
	// trial on a branch of the state: the handler may refuse as well
	hd := w.App.MsgServiceRouter().Handler(msg)
	if hd == nil {
		return nil
	}
	cctx, _ := w.SetupCtx().CacheContext()
	if err := safeCall(func() error { _, e := hd(cctx, msg); return e }); err != nil {
		h.Labels["param-change-refused-by-handler"]++
		return nil
	}
	h.Labels["param-change-applied"]++
	h.Labels["param-change/"+module]++
	e := w.GovEnv(msg)
	e.Args["what"] = strings.Join(desc, ", ")
	return &e
}

func safeCall(f func() error) (err error) {
	defer func() {
		if r := recover(); r != nil {
			err = fmt.Errorf("panic: %v", r)
		}
	}()
	return f()
}

// ---------------------------------------------------------------- other governance knobs

// GenGovKnob draws one of the other governance-settable settings (per-pool parameters, chain-wide reward
// constants, vesting schedules, inflation schedules, pool multipliers) with boundary values; it is used only
// if ValidateBasic and the handler accept it on the current state.
func GenGovKnob(h *History, g *G) *EnvAction {
	w, s := h.W, h.Cur
	gov := GovAddr()
	pickI := func(l string) int64 { return pgInts[g.Pick(l, len(pgInts))] }
	pickD := func(l string) sdkmath.LegacyDec {
		return sdkmath.LegacyMustNewDecFromStr(pgDecs[g.Pick(l, len(pgDecs))])
	}
	var msg sdk.Msg
	var what string
	switch g.Pick("knob", 13) {
	case 10:
		d := w.Scenario.Denoms[g.Pick("knob/rminfo", len(w.Scenario.Denoms))]
		msg, what = &oracletypes.MsgRemoveAssetInfo{Authority: gov, Denom: d}, "oracle remove asset info "+d
	case 11:
		if len(s.LPPools) == 0 {
			return nil
		}
		lp := s.LPPools[g.Pick("knob/rmlppool", len(s.LPPools))]
		msg, what = &lptypes.MsgRemovePool{Authority: gov, Id: lp.AmmPoolId}, fmt.Sprintf("leveragelp remove pool %d", lp.AmmPoolId)
	case 12:
		d := w.Scenario.Denoms[g.Pick("knob/apdenom", len(w.Scenario.Denoms))]
		e, found := w.App.AssetprofileKeeper.GetEntry(w.ReadCtx(), d)
		if !found {
			return nil
		}
		m := &aptypes.MsgUpdateEntry{Authority: gov, BaseDenom: e.BaseDenom, Decimals: e.Decimals, Denom: e.Denom, Path: e.Path, IbcChannelId: e.IbcChannelId, IbcCounterpartyChannelId: e.IbcCounterpartyChannelId,
			DisplayName: e.DisplayName, DisplaySymbol: e.DisplaySymbol, Network: e.Network, Address: e.Address, ExternalSymbol: e.ExternalSymbol, TransferLimit: e.TransferLimit, Permissions: e.Permissions,
			UnitDenom: e.UnitDenom, IbcCounterpartyDenom: e.IbcCounterpartyDenom, IbcCounterpartyChainId: e.IbcCounterpartyChainId, CommitEnabled: e.CommitEnabled, WithdrawEnabled: e.WithdrawEnabled}
		switch g.Pick("knob/apfield", 3) {
		case 0:
			m.Decimals = uint64([]int{0, 1, 6, 18, 30, 77}[g.Pick("knob/apdec", 6)])
		case 1:
			m.CommitEnabled = !m.CommitEnabled
		default:
			m.WithdrawEnabled = !m.WithdrawEnabled
		}
		msg, what = m, fmt.Sprintf("assetprofile entry %s decimals=%d commit=%v withdraw=%v", d, m.Decimals, m.CommitEnabled, m.WithdrawEnabled)
	case 0:
		if len(s.Pools) == 0 {
			return nil
		}
		p := s.Pools[g.Pick("knob/pool", len(s.Pools))]
		pp := p.PoolParams
		switch g.Pick("knob/poolfield", 3) {
		case 0:
			pp.SwapFee = pickD("knob/fee")
			what = fmt.Sprintf("amm pool %d SwapFee=%s", p.PoolId, pp.SwapFee)
		case 1:
			pp.UseOracle = !pp.UseOracle
			what = fmt.Sprintf("amm pool %d UseOracle=%v", p.PoolId, pp.UseOracle)
		default:
			pp.FeeDenom = w.Scenario.Denoms[g.Pick("knob/feedenom", len(w.Scenario.Denoms))]
			what = fmt.Sprintf("amm pool %d FeeDenom=%s", p.PoolId, pp.FeeDenom)
		}
		msg = &ammtypes.MsgUpdatePoolParams{Authority: gov, PoolId: p.PoolId, PoolParams: pp}
	case 1:
		n := uint64(pickI("knob/bpy"))
		msg, what = &paramtypes.MsgUpdateTotalBlocksPerYear{Creator: gov, TotalBlocksPerYear: n}, fmt.Sprintf("parameter TotalBlocksPerYear=%d", n)
	case 2:
		n := uint64(pickI("knob/rdl"))
		msg, what = &paramtypes.MsgUpdateRewardsDataLifetime{Creator: gov, RewardsDataLifetime: n}, fmt.Sprintf("parameter RewardsDataLifetime=%d", n)
	case 3:
		m := &ctypes.MsgUpdateVestingInfo{Authority: gov, BaseDenom: "ueden", VestingDenom: "uelys", NumBlocks: int64(w.Scenario.VestBlocks), VestNowFactor: int64(w.Scenario.VestNowFactor), NumMaxVestings: int64(w.Scenario.MaxVestings)}
		switch g.Pick("knob/vestfield", 3) {
		case 0:
			m.NumBlocks = pickI("knob/nb")
		case 1:
			m.VestNowFactor = pickI("knob/vnf")
		default:
			m.NumMaxVestings = pickI("knob/nmv")
		}
		msg, what = m, fmt.Sprintf("commitment vesting info ueden NumBlocks=%d VestNowFactor=%d NumMaxVestings=%d", m.NumBlocks, m.VestNowFactor, m.NumMaxVestings)
	case 4:
		en := g.Bool("knob/evn")
		msg, what = &ctypes.MsgUpdateEnableVestNow{Authority: gov, EnableVestNow: en}, fmt.Sprintf("commitment EnableVestNow=%v", en)
	case 5:
		inf := &tokenomicstypes.InflationEntry{LmRewards: uint64(pickI("knob/lm")), IcsStakingRewards: uint64(pickI("knob/ics")), CommunityFund: uint64(pickI("knob/cf")), StrategicReserve: uint64(pickI("knob/sr")), TeamTokensVested: uint64(pickI("knob/tt"))}
		msg, what = &tokenomicstypes.MsgUpdateGenesisInflation{Authority: gov, Inflation: inf, SeedVesting: uint64(pickI("knob/sv")), StrategicSalesVesting: uint64(pickI("knob/ssv"))}, fmt.Sprintf("tokenomics genesis inflation %v", inf)
	case 6:
		inf := &tokenomicstypes.InflationEntry{LmRewards: uint64(pickI("knob/lm")), IcsStakingRewards: uint64(pickI("knob/ics")), CommunityFund: uint64(pickI("knob/cf")), StrategicReserve: uint64(pickI("knob/sr")), TeamTokensVested: uint64(pickI("knob/tt"))}
		start := uint64(s.Height) + uint64(g.Int("knob/tbstart", 0, 4))
		end := start + uint64(g.Int("knob/tblen", 0, 30))
		msg, what = &tokenomicstypes.MsgCreateTimeBasedInflation{Authority: gov, StartBlockHeight: start, EndBlockHeight: end, Description: "generated", Inflation: inf}, fmt.Sprintf("tokenomics time-based inflation [%d,%d] %v", start, end, inf)
	case 7:
		if len(s.MCPoolInfos) == 0 {
			return nil
		}
		pi := s.MCPoolInfos[g.Pick("knob/mcpool", len(s.MCPoolInfos))]
		d := pickD("knob/mult")
		msg, what = &mctypes.MsgUpdatePoolMultipliers{Authority: gov, PoolMultipliers: []mctypes.PoolMultiplier{{PoolId: pi.PoolId, Multiplier: d}}}, fmt.Sprintf("masterchef pool %d multiplier=%s", pi.PoolId, d)
	case 8:
		if len(s.MCPoolInfos) == 0 {
			return nil
		}
		pi := s.MCPoolInfos[g.Pick("knob/mcpool", len(s.MCPoolInfos))]
		msg, what = &mctypes.MsgTogglePoolEdenRewards{Authority: gov, PoolId: pi.PoolId, Enable: !pi.EnableEdenRewards}, fmt.Sprintf("masterchef pool %d eden=%v", pi.PoolId, !pi.EnableEdenRewards)
	default:
		if len(s.Pools) == 0 {
			return nil
		}
		p := s.Pools[g.Pick("knob/lppool", len(s.Pools))]
		d := pickD("knob/levmax")
		msg, what = &lptypes.MsgAddPool{Authority: gov, Pool: lptypes.AddPool{AmmPoolId: p.PoolId, LeverageMax: d}}, fmt.Sprintf("leveragelp add pool %d LeverageMax=%s", p.PoolId, d)
	}
	h.Labels["gov-knob-drawn"]++
	if vb, ok := msg.(sdk.HasValidateBasic); ok {
		if err := safeCall(func() error { return vb.ValidateBasic() }); err != nil {
			h.Labels["gov-knob-refused"]++
			return nil
		}
	}
	hd := w.App.MsgServiceRouter().Handler(msg)
	if hd == nil {
		return nil
	}
	cctx, _ := w.SetupCtx().CacheContext()
	if err := safeCall(func() error { _, e := hd(cctx, msg); return e }); err != nil {
		h.Labels["gov-knob-refused"]++
		return nil
	}
	h.Labels["gov-knob-applied"]++
	name := what
	if i := strings.IndexAny(name, "0123456789=["); i > 0 {
		name = strings.TrimSpace(name[:i])
	}
	h.Labels["gov-knob/"+name]++
	e := w.GovEnv(msg)
	e.Args["what"] = what
	return &e
}

// recordParamSnapshot stores the module's current Params (wire format) in the history's snapshot list.
func recordParamSnapshot(h *History, module string) {
	cur := moduleParams(h.W, h.W.ReadCtx(), module)
	if cur == nil {
		return
	}
	pv := reflect.New(reflect.TypeOf(cur))
	pv.Elem().Set(reflect.ValueOf(cur))
	pm, ok := pv.Interface().(gogoproto.Message)
	if !ok {
		return
	}
	bz, err := gogoproto.Marshal(pm)
	if err != nil {
		return
	}
	key := "params-snapshots/" + module
	snaps, _ := h.Ext[key].([][]byte)
	h.Ext[key] = append(snaps, bz)
}
