package harness

import (
	"fmt"
	"math"
	"reflect"
	"strings"

	sdkmath "cosmossdk.io/math"
	sdk "github.com/cosmos/cosmos-sdk/types"
	gogoproto "github.com/cosmos/gogoproto/proto"
)

// "Parameter settings permitted by validation": governance may set any module parameters that the
// module's own validation (Params.Validate, the message's ValidateBasic and the UpdateParams handler)
// accepts. The generator below takes a module's CURRENT parameters, overwrites one or two leaf fields
// with boundary values, keeps the result only if all three validations accept it, and hands it to the
// history as a governance action between two blocks.

var paramModules = []string{"amm", "burner", "estaking", "leveragelp", "masterchef", "oracle", "perpetual", "stablestake", "tradeshield"}

func moduleParams(w *World, ctx sdk.Context, module string) any {
	a := w.App
	switch module {
	case "amm":
		return a.AmmKeeper.GetParams(ctx)
	case "perpetual":
		return a.PerpetualKeeper.GetParams(ctx)
	case "leveragelp":
		return a.LeveragelpKeeper.GetParams(ctx)
	case "stablestake":
		return a.StablestakeKeeper.GetParams(ctx)
	case "masterchef":
		return a.MasterchefKeeper.GetParams(ctx)
	case "oracle":
		return a.OracleKeeper.GetParams(ctx)
	case "tradeshield":
		return a.TradeshieldKeeper.GetParams(ctx)
	case "burner":
		return a.BurnerKeeper.GetParams(ctx)
	case "estaking":
		return a.EstakingKeeper.GetParams(ctx)
	}
	return nil
}

var (
	pgDecType = reflect.TypeOf(sdkmath.LegacyDec{})
	pgIntType = reflect.TypeOf(sdkmath.Int{})
)

type paramLeaf struct {
	path string
	v    reflect.Value
}

// names of fields that are bookkeeping state kept inside a Params object, not settings
var paramStateFields = map[string]bool{"TotalValue": true, "InterestRate": true, "RedemptionRate": true, "TotalCommitted": true}

func collectLeaves(v reflect.Value, path string, depth int, out *[]paramLeaf) {
	if depth > 4 {
		return
	}
	switch v.Type() {
	case pgDecType, pgIntType:
		*out = append(*out, paramLeaf{path, v})
		return
	}
	switch v.Kind() {
	case reflect.Bool, reflect.Int32, reflect.Int64, reflect.Uint32, reflect.Uint64:
		*out = append(*out, paramLeaf{path, v})
	case reflect.Ptr:
		if !v.IsNil() && v.Type().Elem().Kind() == reflect.Struct {
			collectLeaves(v.Elem(), path, depth+1, out)
		}
	case reflect.Struct:
		for i := 0; i < v.NumField(); i++ {
			f := v.Type().Field(i)
			if f.PkgPath != "" || strings.HasPrefix(f.Name, "XXX_") || paramStateFields[f.Name] {
				continue
			}
			collectLeaves(v.Field(i), path+"."+f.Name, depth+1, out)
		}
	case reflect.Slice:
		for i := 0; i < v.Len() && i < 3; i++ {
			collectLeaves(v.Index(i), fmt.Sprintf("%s[%d]", path, i), depth+1, out)
		}
	}
}

var (
	pgInts = []int64{0, 1, 2, 3, 7, 100, 86400, 1_000_000_000, math.MaxInt64 / 4}
	pgDecs = []string{"0", "0.000000000000000001", "0.000001", "0.01", "0.5", "0.99", "1", "1.000000000000000001", "1.5", "2", "10", "1000", "1000000000000"}
	pgBigs = []string{"0", "1", "1000", "1000000000000", "1000000000000000000000000000000"}
)

func setBoundary(g *G, l paramLeaf) string {
	v := l.v
	switch v.Type() {
	case pgDecType:
		s := pgDecs[g.Pick("pg/dec", len(pgDecs))]
		v.Set(reflect.ValueOf(sdkmath.LegacyMustNewDecFromStr(s)))
		return s
	case pgIntType:
		s := pgBigs[g.Pick("pg/int", len(pgBigs))]
		n, _ := sdkmath.NewIntFromString(s)
		v.Set(reflect.ValueOf(n))
		return s
	}
	switch v.Kind() {
	case reflect.Bool:
		v.SetBool(!v.Bool())
		return fmt.Sprint(v.Bool())
	case reflect.Int32, reflect.Int64:
		n := pgInts[g.Pick("pg/i", len(pgInts))]
		if v.Kind() == reflect.Int32 && n > math.MaxInt32 {
			n = math.MaxInt32
		}
		v.SetInt(n)
		return fmt.Sprint(n)
	case reflect.Uint32, reflect.Uint64:
		n := pgInts[g.Pick("pg/u", len(pgInts))]
		if v.Kind() == reflect.Uint32 && n > math.MaxUint32 {
			n = math.MaxUint32
		}
		v.SetUint(uint64(n))
		return fmt.Sprint(n)
	}
	return ""
}

func callValidate(p reflect.Value) (err error) {
	defer func() {
		if r := recover(); r != nil {
			err = fmt.Errorf("validate panicked: %v", r)
		}
	}()
	m := p.MethodByName("Validate")
	if !m.IsValid() && p.CanAddr() {
		m = p.Addr().MethodByName("Validate")
	}
	if !m.IsValid() || m.Type().NumIn() != 0 || m.Type().NumOut() != 1 {
		return nil
	}
	if e, ok := m.Call(nil)[0].Interface().(error); ok && e != nil {
		return e
	}
	return nil
}

// GenParamChange draws one governance parameter change that every validation layer accepts on the
// current state; nil if the drawn candidate is refused (that is the validation working).
func GenParamChange(h *History, g *G) *EnvAction {
	w := h.W
	module := paramModules[g.Pick("pg/module", len(paramModules))]
	ctx := w.ReadCtx()
	cur := moduleParams(w, ctx, module)
	if cur == nil {
		return nil
	}
	// a settable deep copy through the proto codec
	pv := reflect.New(reflect.TypeOf(cur))
	pv.Elem().Set(reflect.ValueOf(cur))
	if pm, ok := pv.Interface().(gogoproto.Message); ok {
		// deep copy through the wire format (slices and pointers inside Params must not alias keeper memory)
		bz, err := gogoproto.Marshal(pm)
		if err != nil {
			return nil
		}
		np := reflect.New(reflect.TypeOf(cur))
		if err := gogoproto.Unmarshal(bz, np.Interface().(gogoproto.Message)); err != nil {
			return nil
		}
		pv = np
	}
	var leaves []paramLeaf
	collectLeaves(pv.Elem(), module, 0, &leaves)
	if len(leaves) == 0 {
		return nil
	}
	n := 1 + g.Int("pg/two", 0, 3)/3
	var desc []string
	for i := 0; i < n; i++ {
		l := leaves[g.Pick("pg/leaf", len(leaves))]
		desc = append(desc, l.path+"="+setBoundary(g, l))
	}
	h.Labels["param-change-drawn"]++
	if err := callValidate(pv); err != nil {
		h.Labels["param-change-refused-by-validate"]++
		return nil
	}
	url := "/elys." + module + ".MsgUpdateParams"
	proto, err := w.App.InterfaceRegistry().Resolve(url)
	if err != nil {
		return nil
	}
	msg, ok := proto.(sdk.Msg)
	if !ok {
		return nil
	}
	rv := reflect.ValueOf(msg).Elem()
	if f := rv.FieldByName("Authority"); f.IsValid() {
		f.SetString(GovAddr())
	}
	f := rv.FieldByName("Params")
	if !f.IsValid() {
		return nil
	}
	if f.Kind() == reflect.Ptr {
		f.Set(pv)
	} else {
		f.Set(pv.Elem())
	}
	if vb, ok := msg.(sdk.HasValidateBasic); ok {
		if err := safeCall(func() error { return vb.ValidateBasic() }); err != nil {
			h.Labels["param-change-refused-by-validate"]++
			return nil
		}
	}
	// trial on a branch of the state: the handler may refuse as well
	hd := w.App.MsgServiceRouter().Handler(msg)
	if hd == nil {
		return nil
	}
	cctx, _ := w.SetupCtx().CacheContext()
	if err := safeCall(func() error { _, e := hd(cctx, msg); return e }); err != nil {
		h.Labels["param-change-refused-by-handler"]++
		return nil
	}
	h.Labels["param-change-applied"]++
	h.Labels["param-change/"+module]++
	e := w.GovEnv(msg)
	e.Args["what"] = strings.Join(desc, ", ")
	return &e
}

func safeCall(f func() error) (err error) {
	defer func() {
		if r := recover(); r != nil {
			err = fmt.Errorf("panic: %v", r)
		}
	}()
	return f()
}
