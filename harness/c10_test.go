package harness

import (
	"fmt"
	"strings"
	"testing"

	sdkmath "cosmossdk.io/math"
	sdk "github.com/cosmos/cosmos-sdk/types"
	"pgregory.net/rapid"

	lptypes "github.com/elys-network/elys/x/leveragelp/types"
	oracletypes "github.com/elys-network/elys/x/oracle/types"
	ptypes "github.com/elys-network/elys/x/parameter/types"
	perptypes "github.com/elys-network/elys/x/perpetual/types"
)

// C10 boundary part (E3): decision vs definition in one block (no accrual between the two).
// A position is opened by the real msg server with generated leverage; the oracle price is
// moved; a third party sends the close-positions message; "closed" must coincide with the
// definition: health <= safety factor (health from the module's own function on a branch of
// the very same state), or the stop-loss / take-profit price reached (incl. equality and one
// ulp either side). A position that is not eligible must keep size, collateral, debt principal
// and its owner's wallet.

func setAtomPrice(w *World, ctx sdk.Context, p sdkmath.LegacyDec, bump uint64) {
	w.App.OracleKeeper.SetPrice(ctx, oracletypes.Price{Asset: "ATOM", Price: p, Source: "elys", Provider: w.Feeder.Addr.String(),
		Timestamp: uint64(ctx.BlockTime().Unix()) + bump, BlockHeight: uint64(ctx.BlockHeight())})
}

var ulp = sdkmath.LegacySmallestDec()

func TestC10Boundary(t *testing.T) {
	w, err := c17Fixture() // lender has bonded; pools exist
	if err != nil {
		t.Fatalf("harness: %v", err)
	}
	sum := newSummary()
	defer sum.emit()
	owner, bot := w.Accounts[1], w.Bot
	rapid.Check(t, func(rt *rapid.T) {
		ctx := caseCtx(w)
		var hist []string
		fail := func(format string, a ...any) {
			msg := fmt.Sprintf(format, a...)
			writeFailLog("C10", msg, hist)
			rt.Fatalf("VIOLATION C10: %s\nhistory: %s", msg, strings.Join(hist, " ; "))
		}
		kind := []string{"mtp-liquidate", "mtp-stoploss", "mtp-takeprofit", "lp-liquidate", "lp-stoploss", "mtp-reopen-after-accrual"}[UniformDraw(rt, "kind", 6)]
		price0 := sdkmath.LegacyNewDec(5)
		wallet := func() sdk.Coins { return w.App.BankKeeper.GetAllBalances(ctx, owner.Addr) }
		if strings.HasPrefix(kind, "mtp") {
			long := UniformDraw(rt, "long", 2) == 1
			lev := sdkmath.LegacyNewDecWithPrec(int64(15+UniformDraw(rt, "lev", 85)), 1) // 1.5 .. 9.9
			pos, tp := perptypes.Position_SHORT, price0.MulInt64(6).QuoInt64(10)
			if long {
				pos, tp = perptypes.Position_LONG, price0.MulInt64(int64(12+UniformDraw(rt, "tp", 60))).QuoInt64(10)
			} else {
				tp = price0.MulInt64(int64(30 + UniformDraw(rt, "tps", 60))).QuoInt64(100)
			}
			open := &perptypes.MsgOpen{Creator: owner.Addr.String(), Position: pos, Leverage: lev, TradingAsset: ptypes.ATOM,
				Collateral: sdk.NewInt64Coin(ptypes.BaseCurrency, int64(10_000_000+UniformDraw(rt, "coll", 2_000_000_000))), TakeProfitPrice: tp, StopLossPrice: sdkmath.LegacyZeroDec(), PoolId: 1}
			hist = append(hist, fmt.Sprintf("open %s lev=%s coll=%s tp=%s", pos, lev, open.Collateral, tp))
			if err, _ := execMsg(w, ctx, open); err != nil {
				sum.record(fmt.Sprint(hist), false, []string{"open-rejected"}, nil)
				return
			}
			mtps := w.App.PerpetualKeeper.GetAllMTPsForAddress(ctx, owner.Addr)
			if len(mtps) != 1 {
				rt.Fatalf("harness: expected one MTP, got %d", len(mtps))
			}
			id := mtps[0].Id
			sf := w.App.PerpetualKeeper.GetSafetyFactor(ctx)
			// the open itself must have left the position strictly healthy
			if h0 := mtps[0].MtpHealth; h0.LTE(sf) {
				fail("a successful open left the MTP with health %s <= safety factor %s", h0, sf)
			}
			if kind == "mtp-reopen-after-accrual" {
				// "every successful consolidating re-open leaves the position with health strictly above the safety
				// factor" – for a position that nobody has touched for so long that the interest accrued and not yet paid
				// is a sizeable part of its debt (1 % … 40 % of the principal; the record is written the way a long
				// accrual leaves it). The owner re-opens on top; if that succeeds the merged position must be healthy,
				// with the unpaid interest counted as debt (folding it into the principal must not change the health).
				m, _ := w.App.PerpetualKeeper.GetMTP(ctx, owner.Addr, id)
				m.BorrowInterestUnpaidLiability = m.Liabilities.MulRaw(int64(1 + UniformDraw(rt, "intpct", 40))).QuoRaw(100)
				if err := w.App.PerpetualKeeper.SetMTP(ctx, &m); err != nil {
					rt.Fatalf("harness: set mtp: %v", err)
				}
				re := &perptypes.MsgOpen{Creator: owner.Addr.String(), Position: pos, Leverage: sdkmath.LegacyNewDecWithPrec(int64(11+UniformDraw(rt, "relev", 60)), 1), TradingAsset: ptypes.ATOM,
					Collateral: sdk.NewInt64Coin(ptypes.BaseCurrency, int64(1_000_000+UniformDraw(rt, "recoll", 500_000_000))), TakeProfitPrice: tp, StopLossPrice: sdkmath.LegacyZeroDec(), PoolId: 1}
				hist = append(hist, fmt.Sprintf("unpaid interest set to %s of %s; re-open lev=%s coll=%s", m.BorrowInterestUnpaidLiability, m.Liabilities, re.Leverage, re.Collateral))
				if err, _ := execMsg(w, ctx, re); err != nil {
					sum.record(fmt.Sprint(hist), true, []string{"mtp-reopen-after-accrual/refused"}, hist)
					return
				}
				after := w.App.PerpetualKeeper.GetAllMTPsForAddress(ctx, owner.Addr)
				amm, _ := w.App.AmmKeeper.GetPool(ctx, 1)
				for _, mm := range after {
					br, _ := ctx.CacheContext()
					hh, err := w.App.PerpetualKeeper.GetMTPHealth(br, *mm, amm, ptypes.BaseCurrency)
					if err != nil {
						continue
					}
					folded := *mm
					folded.Liabilities, folded.BorrowInterestUnpaidLiability = mm.Liabilities.Add(mm.BorrowInterestUnpaidLiability), sdkmath.ZeroInt()
					if h2, err := w.App.PerpetualKeeper.GetMTPHealth(br, folded, amm, ptypes.BaseCurrency); err == nil && h2.LT(hh) {
						hh = h2
					}
					if hh.LTE(sf) {
						fail("a successful consolidating re-open left MTP %d with health %s <= safety factor %s (liabilities %s, interest accrued and unpaid %s)", mm.Id, hh, sf, mm.Liabilities, mm.BorrowInterestUnpaidLiability)
					}
				}
				sum.record(fmt.Sprint(hist), true, []string{"mtp-reopen-after-accrual/accepted"}, hist)
				return
			}
			var p sdkmath.LegacyDec
			var expect bool
			var why string
			switch kind {
			case "mtp-stoploss":
				sl := price0.MulInt64(int64(60 + UniformDraw(rt, "sl", 39))).QuoInt64(100)
				if !long {
					sl = price0.MulInt64(int64(101 + UniformDraw(rt, "sls", 60))).QuoInt64(100)
				}
				if err, _ := execMsg(w, ctx, &perptypes.MsgUpdateStopLoss{Creator: owner.Addr.String(), Id: id, Price: sl}); err != nil {
					sum.record(fmt.Sprint(hist), false, []string{"sl-rejected"}, nil)
					return
				}
				off := []int{-1, 0, 1, -1000000, 1000000}[UniformDraw(rt, "off", 5)]
				p = sl.Add(ulp.MulInt64(int64(off)))
				expect = p.LTE(sl)
				if !long {
					expect = p.GTE(sl)
				}
				why = fmt.Sprintf("stop-loss %s vs price %s", sl, p)
			case "mtp-takeprofit":
				m, _ := w.App.PerpetualKeeper.GetMTP(ctx, owner.Addr, id)
				off := []int{-1, 0, 1, -1000000, 1000000}[UniformDraw(rt, "off", 5)]
				p = m.TakeProfitPrice.Add(ulp.MulInt64(int64(off)))
				expect = p.GTE(m.TakeProfitPrice)
				if !long {
					expect = p.LTE(m.TakeProfitPrice)
				}
				why = fmt.Sprintf("take-profit %s vs price %s", m.TakeProfitPrice, p)
			default:
				// a price between -60% and +120%: crosses the liquidation region of most leverages
				p = price0.MulInt64(int64(40 + UniformDraw(rt, "pp", 180))).QuoInt64(100)
			}
			if !p.IsPositive() {
				return
			}
			setAtomPrice(w, ctx, p, 1)
			hist = append(hist, fmt.Sprintf("price %s", p))
			m, _ := w.App.PerpetualKeeper.GetMTP(ctx, owner.Addr, id)
			if kind == "mtp-liquidate" {
				// definition: health on a branch of this very state (same block: no accrual in between)
				br, _ := ctx.CacheContext()
				amm, _ := w.App.AmmKeeper.GetPool(br, 1)
				mm := m
				w.App.PerpetualKeeper.UpdateMTPBorrowInterestUnpaidLiability(br, &mm)
				h, herr := w.App.PerpetualKeeper.GetMTPHealth(br, mm, amm, ptypes.BaseCurrency)
				if herr != nil {
					sum.record(fmt.Sprint(hist), false, []string{"health-unavailable"}, nil)
					return
				}
				expect = h.LTE(sf)
				why = fmt.Sprintf("health %s vs safety factor %s", h, sf)
			}
			before := wallet()
			req := perptypes.PositionRequest{Address: owner.Addr.String(), Id: id}
			msg := &perptypes.MsgClosePositions{Creator: bot.Addr.String()}
			switch kind {
			case "mtp-liquidate":
				msg.Liquidate = []perptypes.PositionRequest{req}
			case "mtp-stoploss":
				msg.StopLoss = []perptypes.PositionRequest{req}
			default:
				msg.TakeProfit = []perptypes.PositionRequest{req}
			}
			if err, _ := execMsg(w, ctx, msg); err != nil {
				rt.Fatalf("harness: close positions: %v", err)
			}
			after, gerr := w.App.PerpetualKeeper.GetMTP(ctx, owner.Addr, id)
			closed := gerr != nil
			hist = append(hist, fmt.Sprintf("%s -> closed=%v (%s)", kind, closed, why))
			if closed && !expect {
				fail("%s: a third party closed the position although it was not allowed: %s", kind, why)
			}
			if !closed && !expect {
				if !after.Liabilities.Equal(m.Liabilities) || !after.Collateral.Equal(m.Collateral) || after.Custody.GT(m.Custody) {
					fail("%s: a non-eligible position was altered: liabilities %s->%s collateral %s->%s custody %s->%s", kind, m.Liabilities, after.Liabilities, m.Collateral, after.Collateral, m.Custody, after.Custody)
				}
				if !wallet().Equal(before) {
					fail("%s: the owner's wallet changed (%s -> %s) although the position was not eligible", kind, before, wallet())
				}
			}
			lbl := kind + "/not-eligible"
			if expect {
				lbl = kind + "/eligible"
				if !closed {
					lbl += "-but-close-failed"
				}
			}
			sum.record(fmt.Sprint(hist), true, []string{lbl}, hist)
			return
		}
		// ---- leveragelp
		lev := sdkmath.LegacyNewDecWithPrec(int64(12+UniformDraw(rt, "lev", 80)), 1)
		open := &lptypes.MsgOpen{Creator: owner.Addr.String(), CollateralAsset: ptypes.BaseCurrency, CollateralAmount: sdkmath.NewInt(int64(10_000_000 + UniformDraw(rt, "coll", 3_000_000_000))),
			AmmPoolId: 1, Leverage: lev, StopLossPrice: sdkmath.LegacyZeroDec()}
		hist = append(hist, fmt.Sprintf("lp open lev=%s coll=%s", lev, open.CollateralAmount))
		if err, _ := execMsg(w, ctx, open); err != nil {
			sum.record(fmt.Sprint(hist), false, []string{"open-rejected"}, nil)
			return
		}
		var pos *lptypes.Position
		for _, p := range w.App.LeveragelpKeeper.GetAllPositions(ctx) {
			if p.Address == owner.Addr.String() {
				pp := p
				pos = &pp
			}
		}
		if pos == nil {
			rt.Fatalf("harness: position not found")
		}
		sf := w.App.LeveragelpKeeper.GetParams(ctx).SafetyFactor
		{
			br, _ := ctx.CacheContext()
			if h0, err := w.App.LeveragelpKeeper.GetPositionHealth(br, *pos); err == nil && h0.LTE(sf) {
				fail("a successful leveragelp open left the position with health %s <= safety factor %s", h0, sf)
			}
		}
		var expect bool
		var why string
		p := price0.MulInt64(int64(5 + UniformDraw(rt, "pp", 150))).QuoInt64(100)
		if kind == "lp-stoploss" {
			amm, _ := w.App.AmmKeeper.GetPool(ctx, 1)
			lpPrice, err := amm.LpTokenPrice(ctx, w.App.OracleKeeper, w.App.AccountedPoolKeeper)
			if err != nil {
				return
			}
			off := []int{-1, 0, 1, -1000000, 1000000}[UniformDraw(rt, "off", 5)]
			sl := lpPrice.Add(ulp.MulInt64(int64(off)))
			if err, _ := execMsg(w, ctx, &lptypes.MsgUpdateStopLoss{Creator: owner.Addr.String(), Position: pos.Id, Price: sl}); err != nil {
				sum.record(fmt.Sprint(hist), false, []string{"sl-rejected"}, nil)
				return
			}
			expect = lpPrice.LTE(sl)
			why = fmt.Sprintf("lp price %s vs stop-loss %s", lpPrice, sl)
		} else {
			setAtomPrice(w, ctx, p, 1)
			hist = append(hist, fmt.Sprintf("price %s", p))
			br, _ := ctx.CacheContext()
			h, herr := w.App.LeveragelpKeeper.GetPositionHealth(br, *pos)
			if herr != nil {
				sum.record(fmt.Sprint(hist), false, []string{"health-unavailable"}, nil)
				return
			}
			expect = h.LTE(sf)
			why = fmt.Sprintf("health %s vs safety factor %s", h, sf)
		}
		before := wallet()
		debt0 := w.App.StablestakeKeeper.GetDebt(ctx, pos.GetPositionAddress())
		req := &lptypes.PositionRequest{Address: owner.Addr.String(), Id: pos.Id}
		msg := &lptypes.MsgClosePositions{Creator: bot.Addr.String()}
		if kind == "lp-liquidate" {
			msg.Liquidate = []*lptypes.PositionRequest{req}
		} else {
			msg.StopLoss = []*lptypes.PositionRequest{req}
		}
		if err, _ := execMsg(w, ctx, msg); err != nil {
			rt.Fatalf("harness: close positions: %v", err)
		}
		after, gerr := w.App.LeveragelpKeeper.GetPosition(ctx, owner.Addr, pos.Id)
		closed := gerr != nil
		hist = append(hist, fmt.Sprintf("%s -> closed=%v (%s)", kind, closed, why))
		if closed && !expect {
			fail("%s: a third party closed the position although it was not allowed: %s", kind, why)
		}
		if !closed && !expect {
			debt1 := w.App.StablestakeKeeper.GetDebt(ctx, pos.GetPositionAddress())
			if !after.LeveragedLpAmount.Equal(pos.LeveragedLpAmount) || !after.Collateral.Equal(pos.Collateral) || !debt1.Borrowed.Equal(debt0.Borrowed) {
				fail("%s: a non-eligible position was altered: shares %s->%s collateral %s->%s principal %s->%s", kind, pos.LeveragedLpAmount, after.LeveragedLpAmount, pos.Collateral, after.Collateral, debt0.Borrowed, debt1.Borrowed)
			}
			if !wallet().Equal(before) {
				fail("%s: the owner's wallet changed although the position was not eligible", kind)
			}
		}
		lbl := kind + "/not-eligible"
		if expect {
			lbl = kind + "/eligible"
			if !closed {
				lbl += "-but-close-failed"
			}
		}
		sum.record(fmt.Sprint(hist), true, []string{lbl}, hist)
	})
}
