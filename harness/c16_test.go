package harness

import (
	"encoding/json"
	"fmt"
	"os"
	"sort"
	"strings"
	"testing"
	"time"

	sdkmath "cosmossdk.io/math"
	sdk "github.com/cosmos/cosmos-sdk/types"
	"pgregory.net/rapid"

	oracletypes "github.com/elys-network/elys/x/oracle/types"
)

// C16: oracle lookup vs a reference map (E3).

var c16Assets = []string{"BTC", "BTCe", "BTCelys", "BTCelysx", "ETH", "ETHband", "ETHW", "USD", "USDC", "USDCelys", "ATOM", "ATOMx", "elys", "band"}
var c16Sources = []string{"elys", "band", "x", "ys", "lys", "e", "elysx", "bandx", "zzz"}

type c16Op struct {
	Kind   string `json:"kind"`                   // feed | feedmulti | setactive | delfeeder | addfeeder | rmfeeder | endblock | lookup | denomlookup | params | assetinfo | rminfo
	Who    int    `json:"who,omitempty"`          // account index (0..2 users, 3 = feeder)
	More   []int  `json:"more_targets,omitempty"` // addfeeder / rmfeeder: further list entries (account indexes; duplicates and unregistered accounts allowed)
	Asset  string `json:"asset,omitempty"`
	Source string `json:"source,omitempty"`
	Price  string `json:"price,omitempty"`
	Asset2 string `json:"asset2,omitempty"`
	Src2   string `json:"source2,omitempty"`
	Active bool   `json:"active,omitempty"`
	Gov    bool   `json:"gov,omitempty"` // gov-only message sent with the gov authority (else with Who's address)
	GapS   int64  `json:"gap_s,omitempty"`
	Expiry uint64 `json:"expiry,omitempty"`
	Life   uint64 `json:"life,omitempty"`
	Denom  string `json:"denom,omitempty"`
	Dec    uint64 `json:"dec,omitempty"`
}

type mPrice struct {
	Asset, Source string
	TS            uint64
	Height        uint64
	Price         sdkmath.LegacyDec
}

type c16Machine struct {
	w        *World
	ctx      sdk.Context
	actors   []*Account
	Prices   map[string]mPrice // key asset|source|ts
	Feeders  map[string]bool   // addr -> active
	Infos    map[string]oracletypes.AssetInfo
	Expiry   uint64
	Life     uint64
	Ops      []c16Op
	Labels   map[string]bool
	NT       bool
	Excluded map[string]int
	KnownHit map[string]bool
}

// pkey: model key of a price record. Known finding F18 (open): the store key is
// asset+source+"/"+timestamp WITHOUT a delimiter between asset and source, so two different
// (asset, source) pairs with the same concatenation share one storage slot and a feed for one
// overwrites the other. While F18 is open the model keys its map the same way (and counts every
// such overwrite as excluded); otherwise pairs are kept apart.
func pkey(a, s string, ts uint64) string {
	if FindingOpen("F18") {
		return fmt.Sprintf("%s|%020d", a+s, ts)
	}
	return fmt.Sprintf("%s|%s|%020d", a, s, ts)
}

func newC16Machine(w *World) *c16Machine {
	ctx := caseCtx(w)
	m := &c16Machine{w: w, ctx: ctx, actors: []*Account{w.Accounts[0], w.Accounts[1], w.Accounts[2], w.Feeder},
		Prices: map[string]mPrice{}, Feeders: map[string]bool{}, Infos: map[string]oracletypes.AssetInfo{}, Labels: map[string]bool{}, Excluded: map[string]int{}, KnownHit: map[string]bool{}}
	ok := w.App.OracleKeeper
	for _, p := range ok.GetAllPrice(ctx) {
		m.Prices[pkey(p.Asset, p.Source, p.Timestamp)] = mPrice{p.Asset, p.Source, p.Timestamp, p.BlockHeight, p.Price}
	}
	for _, f := range ok.GetAllPriceFeeder(ctx) {
		m.Feeders[f.Feeder] = f.IsActive
	}
	for _, i := range ok.GetAllAssetInfo(ctx) {
		m.Infos[i.Denom] = i
	}
	params := ok.GetParams(ctx)
	m.Expiry, m.Life = params.PriceExpiryTime, params.LifeTimeInBlocks
	return m
}

func (m *c16Machine) allPrices() string {
	ps := m.w.App.OracleKeeper.GetAllPrice(m.ctx)
	var ss []string
	for _, p := range ps {
		ss = append(ss, fmt.Sprintf("%s|%s|%d|%d|%s", p.Asset, p.Source, p.Timestamp, p.BlockHeight, p.Price))
	}
	sort.Strings(ss)
	fs := m.w.App.OracleKeeper.GetAllPriceFeeder(m.ctx)
	for _, f := range fs {
		ss = append(ss, fmt.Sprintf("feeder|%s|%v", f.Feeder, f.IsActive))
	}
	return strings.Join(ss, ";")
}

// expected lookup result for exactly asset a
func (m *c16Machine) expect(a string) (exact *mPrice, anyOf []mPrice) {
	bySource := map[string]mPrice{}
	for _, p := range m.Prices {
		if p.Asset != a {
			continue
		}
		if cur, ok := bySource[p.Source]; !ok || p.TS > cur.TS {
			bySource[p.Source] = p
		}
	}
	if p, ok := bySource[oracletypes.ELYS]; ok {
		return &p, nil
	}
	if p, ok := bySource[oracletypes.BAND]; ok {
		return &p, nil
	}
	for _, s := range sortedKeys(bySource) {
		anyOf = append(anyOf, bySource[s])
	}
	return nil, anyOf
}

func (m *c16Machine) checkLookup(a string) error {
	got, found := m.w.App.OracleKeeper.GetAssetPrice(m.ctx, a)
	exact, anyOf := m.expect(a)
	// classify for the non-trivial rule: a has no live price of its own while a colliding key has
	if exact == nil && len(anyOf) == 0 {
		for _, p := range m.Prices {
			if strings.HasPrefix(p.Asset+p.Source, a) && p.Asset != a {
				m.NT = true
			}
		}
	}
	switch {
	case exact != nil:
		if !found {
			return fmt.Errorf("lookup(%s): no price returned, but a live %s-source price for exactly %s exists (ts %d)", a, exact.Source, a, exact.TS)
		}
		if got.Asset != a {
			return fmt.Errorf("lookup(%s): returned a price fed for a different asset (%s, source %s)", a, got.Asset, got.Source)
		}
		if got.Source != exact.Source || got.Timestamp != exact.TS || !got.Price.Equal(exact.Price) {
			return fmt.Errorf("lookup(%s): returned (%s,%s,ts %d,%s) but the newest live preferred-source price is (%s,%s,ts %d,%s)", a, got.Asset, got.Source, got.Timestamp, got.Price, exact.Asset, exact.Source, exact.TS, exact.Price)
		}
	case len(anyOf) > 0:
		if !found {
			return fmt.Errorf("lookup(%s): no price returned, but live prices for exactly %s exist from other sources", a, a)
		}
		if got.Asset != a {
			return fmt.Errorf("lookup(%s): returned a price fed for a different asset (%s, source %s)", a, got.Asset, got.Source)
		}
		ok := false
		for _, p := range anyOf {
			if got.Source == p.Source && got.Timestamp == p.TS && got.Price.Equal(p.Price) {
				ok = true
			}
		}
		if !ok {
			return fmt.Errorf("lookup(%s): returned (%s,%s,ts %d) which is not the newest live price of its source", a, got.Asset, got.Source, got.Timestamp)
		}
	default:
		if found {
			if got.Asset != a {
				return fmt.Errorf("lookup(%s): no live price for %s exists, yet a price fed for a different asset (%s, source %s, ts %d) was returned", a, a, got.Asset, got.Source, got.Timestamp)
			}
			return fmt.Errorf("lookup(%s): returned (%s,%s,ts %d) but the model holds no live price for it (expired or never fed)", a, got.Asset, got.Source, got.Timestamp)
		}
	}
	return nil
}

func (m *c16Machine) apply(op c16Op) error {
	m.Ops = append(m.Ops, op)
	w := m.w
	who := m.actors[op.Who%len(m.actors)]
	now := uint64(m.ctx.BlockTime().Unix())
	height := uint64(m.ctx.BlockHeight())
	switch op.Kind {
	case "feed", "feedmulti":
		price := sdkmath.LegacyMustNewDecFromStr(op.Price)
		var msg sdk.Msg
		feeds := []oracletypes.FeedPrice{{Asset: op.Asset, Price: price, Source: op.Source}}
		if op.Kind == "feedmulti" {
			feeds = append(feeds, oracletypes.FeedPrice{Asset: op.Asset2, Price: price.MulInt64(2), Source: op.Src2})
			msg = &oracletypes.MsgFeedMultiplePrices{Creator: who.Addr.String(), FeedPrices: feeds}
		} else {
			msg = &oracletypes.MsgFeedPrice{Provider: who.Addr.String(), FeedPrice: feeds[0]}
		}
		before := m.allPrices()
		err, pan := execMsg(w, m.ctx, msg)
		if pan {
			return fmt.Errorf("feed panicked: %v", err)
		}
		active, registered := m.Feeders[who.Addr.String()]
		allowed := registered && active
		if !allowed {
			m.Labels["feed-by-non-feeder"] = true
			if err == nil {
				return fmt.Errorf("a feed by %s, which is not a registered active feeder (registered=%v active=%v), was accepted", who.Name, registered, active)
			}
			if after := m.allPrices(); after != before {
				return fmt.Errorf("a rejected feed by %s changed the stored prices/feeders", who.Name)
			}
			return nil
		}
		if err != nil {
			return fmt.Errorf("a feed by the registered active feeder %s was rejected: %v", who.Name, err)
		}
		for _, f := range feeds {
			k := pkey(f.Asset, f.Source, now)
			if old, ok := m.Prices[k]; ok && (old.Asset != f.Asset || old.Source != f.Source) {
				m.Excluded["F18:feed-overwrote-colliding-pair"]++
				m.KnownHit["F18"] = true
			}
			m.Prices[k] = mPrice{f.Asset, f.Source, now, height, f.Price}
		}
	case "setactive":
		err, _ := execMsg(w, m.ctx, &oracletypes.MsgSetPriceFeeder{Feeder: who.Addr.String(), IsActive: op.Active})
		_, registered := m.Feeders[who.Addr.String()]
		if registered != (err == nil) {
			return fmt.Errorf("SetPriceFeeder by %s: error=%v, registered=%v", who.Name, err, registered)
		}
		if err == nil {
			m.Feeders[who.Addr.String()] = op.Active
		}
	case "delfeeder":
		err, _ := execMsg(w, m.ctx, &oracletypes.MsgDeletePriceFeeder{Feeder: who.Addr.String()})
		_, registered := m.Feeders[who.Addr.String()]
		if registered != (err == nil) {
			return fmt.Errorf("DeletePriceFeeder by %s: error=%v, registered=%v", who.Name, err, registered)
		}
		delete(m.Feeders, who.Addr.String())
	case "addfeeder", "rmfeeder", "params", "rminfo":
		auth := who.Addr.String()
		if op.Gov {
			auth = GovAddr()
		}
		target := m.actors[(op.Who+1)%len(m.actors)]
		targets := []string{target.Addr.String()}
		for _, k := range op.More {
			a := m.actors[((k%len(m.actors))+len(m.actors))%len(m.actors)].Addr.String()
			if k%2 == 0 {
				targets = append(targets, a) // behind the first entry
			} else {
				targets = append([]string{a}, targets...) // in front of it
			}
		}
		var msg sdk.Msg
		switch op.Kind {
		case "addfeeder":
			msg = &oracletypes.MsgAddPriceFeeders{Authority: auth, Feeders: targets}
		case "rmfeeder":
			msg = &oracletypes.MsgRemovePriceFeeders{Authority: auth, Feeders: targets}
		case "params":
			p := w.App.OracleKeeper.GetParams(m.ctx)
			p.PriceExpiryTime, p.LifeTimeInBlocks = op.Expiry, op.Life
			msg = &oracletypes.MsgUpdateParams{Authority: auth, Params: p}
		case "rminfo":
			msg = &oracletypes.MsgRemoveAssetInfo{Authority: auth, Denom: op.Denom}
		}
		before := m.allPrices()
		err, pan := execMsg(w, m.ctx, msg)
		if pan {
			return fmt.Errorf("%s panicked: %v", op.Kind, err)
		}
		if !op.Gov {
			m.Labels["gov-msg-by-non-gov"] = true
			if err == nil {
				return fmt.Errorf("governance-only oracle message %s sent by %s was accepted", op.Kind, who.Name)
			}
			if m.allPrices() != before {
				return fmt.Errorf("rejected governance-only message %s changed state", op.Kind)
			}
			return nil
		}
		if err != nil {
			return fmt.Errorf("harness: gov %s rejected: %v", op.Kind, err)
		}
		switch op.Kind {
		case "addfeeder":
			for _, a := range targets {
				m.Feeders[a] = true
			}
		case "rmfeeder":
			for _, a := range targets {
				delete(m.Feeders, a)
			}
			if len(targets) > 1 {
				m.Labels["rmfeeder-list"] = true
			}
		case "params":
			m.Expiry, m.Life = op.Expiry, op.Life
		case "rminfo":
			delete(m.Infos, op.Denom)
		}
	case "assetinfo":
		// the three names are independent inputs: the display name decides which asset's prices the denom gets
		band, elys := op.Asset, op.Asset
		if op.Asset2 != "" {
			band = op.Asset2
		}
		if op.Src2 != "" {
			elys = op.Src2
		}
		err, _ := execMsg(w, m.ctx, &oracletypes.MsgCreateAssetInfo{Creator: who.Addr.String(), Denom: op.Denom, Display: op.Asset, BandTicker: band, ElysTicker: elys, Decimal: op.Dec})
		_, exists := m.Infos[op.Denom]
		if exists == (err == nil) {
			return fmt.Errorf("CreateAssetInfo(%s): error=%v but exists=%v", op.Denom, err, exists)
		}
		if err == nil {
			m.Infos[op.Denom] = oracletypes.AssetInfo{Denom: op.Denom, Display: op.Asset, Decimal: op.Dec}
		}
	case "endblock":
		w.App.OracleKeeper.EndBlock(m.ctx)
		for k, p := range m.Prices {
			if p.TS+m.Expiry < now || p.Height+m.Life < height {
				delete(m.Prices, k)
				m.Labels["expired"] = true
			}
		}
		m.ctx = m.ctx.WithBlockHeight(m.ctx.BlockHeight() + 1).WithBlockTime(m.ctx.BlockTime().Add(time.Duration(op.GapS) * time.Second))
		// after the block ended every asset must resolve according to the model
		for _, a := range c16Assets {
			if err := m.checkLookup(a); err != nil {
				return fmt.Errorf("after end-block: %v", err)
			}
		}
	case "lookup":
		return m.checkLookup(op.Asset)
	case "denomlookup":
		got := w.App.OracleKeeper.GetAssetPriceFromDenom(m.ctx, op.Denom)
		info, ok := m.Infos[op.Denom]
		want := sdkmath.LegacyZeroDec()
		if ok {
			exact, anyOf := m.expect(info.Display)
			if exact == nil && len(anyOf) == 0 {
				if !got.IsZero() {
					return fmt.Errorf("denom lookup(%s): display %s has no live price, yet %s was returned", op.Denom, info.Display, got)
				}
				return nil
			}
			if exact != nil {
				want = exact.Price
				for i := uint64(0); i < info.Decimal; i++ {
					want = want.Quo(sdkmath.LegacyNewDec(10))
				}
				_ = want
			}
			// exact scaling is checked against the real price record to avoid re-deriving Dec rounding
			p, found := w.App.OracleKeeper.GetAssetPrice(m.ctx, info.Display)
			if !found {
				return fmt.Errorf("denom lookup(%s): inconsistent with asset lookup", op.Denom)
			}
			scale := sdkmath.LegacyNewDec(1)
			for i := uint64(0); i < info.Decimal; i++ {
				scale = scale.Mul(sdkmath.LegacyNewDec(10))
			}
			if !got.Equal(p.Price.Quo(scale)) {
				return fmt.Errorf("denom lookup(%s): %s != price %s / 10^%d", op.Denom, got, p.Price, info.Decimal)
			}
			return m.checkLookup(info.Display)
		}
		if !got.IsZero() {
			return fmt.Errorf("denom lookup(%s): no asset info, yet %s was returned", op.Denom, got)
		}
	default:
		return fmt.Errorf("harness: unknown op %s", op.Kind)
	}
	return nil
}

func (m *c16Machine) hist() []string {
	var out []string
	for _, o := range m.Ops {
		bz, _ := json.Marshal(o)
		out = append(out, string(bz))
	}
	return out
}

type c16Script struct {
	Property  string  `json:"property"`
	Kind      string  `json:"kind"`
	Violation string  `json:"violation,omitempty"`
	Ops       []c16Op `json:"ops"`
}

func replayC16Script(w *World, path string) error {
	bz, err := os.ReadFile(path)
	if err != nil {
		return fmt.Errorf("harness: %v", err)
	}
	var sc c16Script
	if err := json.Unmarshal(bz, &sc); err != nil {
		return fmt.Errorf("harness: %v", err)
	}
	m := newC16Machine(w)
	for _, op := range sc.Ops {
		if verr := m.apply(op); verr != nil {
			return verr
		}
	}
	for _, id := range sortedKeys(m.KnownHit) {
		EmitStats(map[string]any{"known_replay": id, "property": "C16"})
	}
	return nil
}

func TestC16(t *testing.T) {
	w, err := keeperFixture()
	if err != nil {
		t.Fatalf("harness: %v", err)
	}
	for _, k := range loadKnown() {
		if k.Property != "C16" || k.Replay == "" {
			continue
		}
		if verr := replayC16Script(w, k.Replay); verr != nil {
			if k.Status == "open" {
				EmitStats(map[string]any{"known_replay": k.ID, "property": "C16"})
			} else {
				copyFile(k.Replay, os.Getenv("VERIF_FAILTRACE"))
				t.Fatalf("VIOLATION C16 (replay of finding script %s): %v", k.ID, verr)
			}
		}
	}
	if path := os.Getenv("VERIF_REPLAY"); path != "" {
		if verr := replayC16Script(w, path); verr != nil {
			t.Fatalf("VIOLATION C16 (replay): %v", verr)
		}
		return
	}
	sum := newSummary()
	defer sum.emit()
	pick := func(rt *rapid.T, label string, xs []string) string { return xs[UniformDraw(rt, label, len(xs))] }
	rapid.Check(t, func(rt *rapid.T) {
		m := newC16Machine(w)
		fail := func(verr error) {
			if strings.HasPrefix(verr.Error(), "harness:") {
				rt.Fatalf("%v", verr)
			}
			if p := os.Getenv("VERIF_FAILTRACE"); p != "" {
				bz, _ := json.MarshalIndent(c16Script{Property: "C16", Kind: "c16-script", Violation: verr.Error(), Ops: m.Ops}, "", " ")
				_ = os.WriteFile(p, bz, 0o644)
			}
			rt.Fatalf("VIOLATION C16: %v\nhistory: %s", verr, strings.Join(m.hist(), " "))
		}
		// small expiry parameters so that expiry actually happens
		exp := []uint64{5, 60, 3600}
		life := []uint64{1, 2, 5, 1000}
		if verr := m.apply(c16Op{Kind: "params", Gov: true, Expiry: exp[UniformDraw(rt, "exp", 3)], Life: life[UniformDraw(rt, "life", 4)]}); verr != nil {
			fail(verr)
		}
		n := 4 + UniformDraw(rt, "nops", 36)
		for i := 0; i < n; i++ {
			var op c16Op
			switch UniformDraw(rt, "op", 20) {
			case 0, 1, 2, 3, 4, 5, 6:
				who := 3
				if UniformDraw(rt, "nonfeeder", 5) == 0 {
					who = UniformDraw(rt, "who", 4)
				}
				op = c16Op{Kind: "feed", Who: who, Asset: pick(rt, "asset", c16Assets), Source: pick(rt, "source", c16Sources), Price: fmt.Sprintf("%d.%02d", 1+UniformDraw(rt, "pi", 500), UniformDraw(rt, "pf", 100))}
				// markets often stand still: a third of the feeds repeat, value for value, an earlier feed of this history
				// (same asset and source when there is one) – the repeated feed is nevertheless the newest one
				if UniformDraw(rt, "refeed", 3) == 0 {
					for i := len(m.Ops) - 1; i >= 0; i-- {
						if o := m.Ops[i]; o.Kind == "feed" && o.Price != "" && (UniformDraw(rt, "refeed/any", 4) == 0 || (o.Asset == op.Asset && o.Source == op.Source)) {
							op.Asset, op.Source, op.Price = o.Asset, o.Source, o.Price
							break
						}
					}
				}
			case 7:
				op = c16Op{Kind: "feedmulti", Who: 3, Asset: pick(rt, "asset", c16Assets), Source: pick(rt, "source", c16Sources), Asset2: pick(rt, "asset2", c16Assets), Src2: pick(rt, "source2", c16Sources), Price: fmt.Sprintf("%d", 1+UniformDraw(rt, "pi", 500))}
			case 8, 9, 10, 11:
				gaps := []int64{1, 5, 6, 61, 3601}
				op = c16Op{Kind: "endblock", GapS: gaps[UniformDraw(rt, "gap", len(gaps))]}
			case 12, 13, 14:
				op = c16Op{Kind: "lookup", Asset: pick(rt, "asset", c16Assets)}
			case 15:
				op = c16Op{Kind: "setactive", Who: UniformDraw(rt, "who", 4), Active: UniformDraw(rt, "act", 2) == 1}
			case 16:
				kinds := []string{"addfeeder", "rmfeeder", "delfeeder"}
				op = c16Op{Kind: kinds[UniformDraw(rt, "fk", 3)], Who: UniformDraw(rt, "who", 4), Gov: UniformDraw(rt, "gov", 3) > 0}
				if op.Kind != "delfeeder" {
					for i, n := 0, UniformDraw(rt, "fk/more", 3); i < n; i++ {
						op.More = append(op.More, UniformDraw(rt, "fk/moreidx", 8))
					}
				}
			case 17:
				op = c16Op{Kind: "assetinfo", Who: UniformDraw(rt, "who", 4), Denom: "u" + strings.ToLower(pick(rt, "asset", c16Assets)), Asset: pick(rt, "asset2", c16Assets), Dec: uint64(6 + UniformDraw(rt, "dec", 3)*6)}
				if UniformDraw(rt, "tickers-differ", 2) == 1 {
					op.Asset2, op.Src2 = pick(rt, "bandticker", c16Assets), pick(rt, "elysticker", c16Assets)
				}
			case 18:
				denoms := []string{"uusdc", "uatom", "ubtc", "ueth", "uusd", "uelys", "unknown"}
				op = c16Op{Kind: "denomlookup", Denom: denoms[UniformDraw(rt, "denom", len(denoms))]}
			default:
				if UniformDraw(rt, "pk", 2) == 0 {
					op = c16Op{Kind: "params", Who: UniformDraw(rt, "who", 4), Gov: UniformDraw(rt, "gov", 3) > 0, Expiry: exp[UniformDraw(rt, "exp", 3)], Life: life[UniformDraw(rt, "life", 4)]}
				} else {
					op = c16Op{Kind: "rminfo", Who: UniformDraw(rt, "who", 4), Gov: UniformDraw(rt, "gov", 3) > 0, Denom: "uatom"}
				}
			}
			if verr := m.apply(op); verr != nil {
				fail(verr)
			}
		}
		for _, a := range c16Assets {
			if verr := m.checkLookup(a); verr != nil {
				fail(verr)
			}
		}
		var ls []string
		for l := range m.Labels {
			ls = append(ls, l)
		}
		if m.NT {
			ls = append(ls, "lookup-with-only-colliding-keys-live")
		}
		sum.record(strings.Join(m.hist(), ""), m.NT, ls, m.hist())
		sum.addExcluded(m.Excluded, m.KnownHit)
	})
}
