package harness

import (
	"fmt"
	"sort"
	"strings"

	sdkmath "cosmossdk.io/math"
	storetypes "cosmossdk.io/store/types"
	cmtcrypto "github.com/cometbft/cometbft/crypto"
	sdk "github.com/cosmos/cosmos-sdk/types"

	ammkeeper "github.com/elys-network/elys/x/amm/keeper"
	ammtypes "github.com/elys-network/elys/x/amm/types"
	lpkeeper "github.com/elys-network/elys/x/leveragelp/keeper"
	lptypes "github.com/elys-network/elys/x/leveragelp/types"
	oracletypes "github.com/elys-network/elys/x/oracle/types"
	ptypes "github.com/elys-network/elys/x/parameter/types"
)

type cmtPubKey = cmtcrypto.PubKey

func noGas() storetypes.GasMeter { return storetypes.NewInfiniteGasMeter() }

// PoolSpec describes one amm pool created during the setup prefix.
type PoolSpec struct {
	UseOracle bool     `json:"use_oracle"`
	Denoms    [2]string `json:"denoms"`
	Amounts   [2]string `json:"amounts"`
	Weights   [2]int64  `json:"weights"`
	SwapFee   string    `json:"swap_fee"`
	Leverage  bool      `json:"leverage"` // leveragelp.AddPool (=> perpetual + accounted pool)
}

// WorldSpec = Scenario + setup prefix, the full deterministic recipe of a world.
type WorldSpec struct {
	Scenario Scenario          `json:"scenario"`
	Prices   map[string]string `json:"prices"` // display -> price
	Pools    []PoolSpec        `json:"pools"`
}

func DefaultWorldSpec() WorldSpec {
	return WorldSpec{
		Scenario: DefaultScenario(),
		Prices:   map[string]string{"USDC": "1.0", "USDT": "1.0", "ATOM": "5.0", "ELYS": "3.0"},
		Pools: []PoolSpec{
			{UseOracle: true, Denoms: [2]string{ptypes.ATOM, ptypes.BaseCurrency}, Amounts: [2]string{"200000000000", "1000000000000"}, Weights: [2]int64{50, 50}, SwapFee: "0.001", Leverage: true},
			{UseOracle: false, Denoms: [2]string{ptypes.Elys, ptypes.BaseCurrency}, Amounts: [2]string{"300000000000", "900000000000"}, Weights: [2]int64{50, 50}, SwapFee: "0.003"},
		},
	}
}

// BuildWorld creates the world and applies the setup prefix. Everything after this
// goes through signed transactions in committed blocks.
func BuildWorld(spec WorldSpec) (*World, error) {
	w := NewWorld(spec.Scenario)
	ctx := w.SetupCtx()
	app := w.App
	// oracle asset infos + prices + feeder
	for _, d := range spec.Scenario.Denoms {
		app.OracleKeeper.SetAssetInfo(ctx, oracletypes.AssetInfo{Denom: d, Display: displayOf(d), Decimal: 6})
	}
	app.OracleKeeper.SetPriceFeeder(ctx, oracletypes.PriceFeeder{Feeder: w.Feeder.Addr.String(), IsActive: true})
	for _, disp := range sortedKeys(spec.Prices) {
		app.OracleKeeper.SetPrice(ctx, oracletypes.Price{
			Asset: disp, Price: sdkmath.LegacyMustNewDecFromStr(spec.Prices[disp]), Source: "elys",
			Provider: w.Feeder.Addr.String(), Timestamp: uint64(ctx.BlockTime().Unix()), BlockHeight: uint64(ctx.BlockHeight()),
		})
	}
	ammSrv := ammkeeper.NewMsgServerImpl(*app.AmmKeeper)
	lpSrv := lpkeeper.NewMsgServerImpl(*app.LeveragelpKeeper)
	for i, ps := range spec.Pools {
		assets := []ammtypes.PoolAsset{}
		for j := 0; j < 2; j++ {
			amt, ok := sdkmath.NewIntFromString(ps.Amounts[j])
			if !ok {
				return nil, fmt.Errorf("pool %d bad amount", i)
			}
			assets = append(assets, ammtypes.PoolAsset{Token: sdk.NewCoin(ps.Denoms[j], amt), Weight: sdkmath.NewInt(ps.Weights[j]),
				ExternalLiquidityRatio: sdkmath.LegacyNewDec(1)})
		}
		sort.Slice(assets, func(a, b int) bool { return strings.Compare(assets[a].Token.Denom, assets[b].Token.Denom) < 0 })
		msg := &ammtypes.MsgCreatePool{
			Sender:     w.Admin.Addr.String(),
			PoolParams: ammtypes.PoolParams{UseOracle: ps.UseOracle, SwapFee: sdkmath.LegacyMustNewDecFromStr(ps.SwapFee), FeeDenom: ptypes.BaseCurrency},
			PoolAssets: assets,
		}
		if err := msg.ValidateBasic(); err != nil {
			return nil, fmt.Errorf("create pool %d validate: %w", i, err)
		}
		resp, err := ammSrv.CreatePool(ctx, msg)
		if err != nil {
			return nil, fmt.Errorf("create pool %d: %w", i, err)
		}
		if ps.Leverage {
			_, err := lpSrv.AddPool(ctx, &lptypes.MsgAddPool{Authority: GovAddr(),
				Pool: lptypes.AddPool{AmmPoolId: resp.PoolID, LeverageMax: sdkmath.LegacyNewDec(10)}})
			if err != nil {
				return nil, fmt.Errorf("leveragelp add pool %d: %w", i, err)
			}
		}
	}
	w.EndBlock(5e9)
	if w.BlockErr != nil {
		return nil, w.BlockErr
	}
	return w, nil
}
