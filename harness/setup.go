package harness

import (
	"fmt"
	"sort"
	"strings"

	sdkmath "cosmossdk.io/math"
	storetypes "cosmossdk.io/store/types"
	cmtcrypto "github.com/cometbft/cometbft/crypto"
	sdk "github.com/cosmos/cosmos-sdk/types"

	ammkeeper "github.com/elys-network/elys/x/amm/keeper"
	ammtypes "github.com/elys-network/elys/x/amm/types"
	lpkeeper "github.com/elys-network/elys/x/leveragelp/keeper"
	lptypes "github.com/elys-network/elys/x/leveragelp/types"
	mctypes "github.com/elys-network/elys/x/masterchef/types"
	oracletypes "github.com/elys-network/elys/x/oracle/types"
	ptypes "github.com/elys-network/elys/x/parameter/types"
	tokenomicstypes "github.com/elys-network/elys/x/tokenomics/types"
)

type cmtPubKey = cmtcrypto.PubKey

func noGas() storetypes.GasMeter { return storetypes.NewInfiniteGasMeter() }

// PoolSpec describes one amm pool created during the setup prefix.
type PoolSpec struct {
	UseOracle bool      `json:"use_oracle"`
	Denoms    [2]string `json:"denoms"`
	Amounts   [2]string `json:"amounts"`
	Weights   [2]int64  `json:"weights"`
	SwapFee   string    `json:"swap_fee"`
	Leverage  bool      `json:"leverage"` // leveragelp.AddPool (=> perpetual + accounted pool)
}

// WorldSpec = Scenario + setup prefix, the full deterministic recipe of a world.
type WorldSpec struct {
	Scenario     Scenario          `json:"scenario"`
	Prices       map[string]string `json:"prices"` // display -> price
	Pools        []PoolSpec        `json:"pools"`
	EdenPerYear  uint64            `json:"eden_per_year"`      // >0: time-based inflation (LM rewards) + eden enabled on all pools
	RewardDenoms []string          `json:"reward_denoms"`      // supported external-incentive denoms
	GovMsgs      []string          `json:"gov_msgs,omitempty"` // interface-JSON msgs applied with gov authority at the end of setup
	// imbalanced start: prices fed AFTER the pools were created (an oracle pool created 50:50 by value is then
	// far from its target weights) and a donation of every pool asset to each oracle pool's rebalance treasury
	SkewPrices   map[string]string `json:"skew_prices,omitempty"`
	FundTreasury string            `json:"fund_treasury,omitempty"`
}

func DefaultWorldSpec() WorldSpec {
	return WorldSpec{
		Scenario:     DefaultScenario(),
		Prices:       map[string]string{"USDC": "1.0", "USDT": "1.0", "ATOM": "5.0", "ELYS": "3.0"},
		EdenPerYear:  6_307_200_000_000,
		RewardDenoms: []string{"uusdt", ptypes.ATOM},
		Pools: []PoolSpec{
			{UseOracle: true, Denoms: [2]string{ptypes.ATOM, ptypes.BaseCurrency}, Amounts: [2]string{"200000000000", "1000000000000"}, Weights: [2]int64{50, 50}, SwapFee: "0.001", Leverage: true},
			{UseOracle: false, Denoms: [2]string{ptypes.Elys, ptypes.BaseCurrency}, Amounts: [2]string{"300000000000", "900000000000"}, Weights: [2]int64{50, 50}, SwapFee: "0.003"},
		},
	}
}

// BuildWorld creates the world and applies the setup prefix. Everything after this
// goes through signed transactions in committed blocks.
func BuildWorld(spec WorldSpec) (*World, error) { return BuildWorldOn(spec, "") }

// BuildWorldOn builds the world on a goleveldb database in diskDir (see NewWorldOn).
func BuildWorldOn(spec WorldSpec, diskDir string) (*World, error) {
	w := NewWorldOn(spec.Scenario, diskDir)
	ctx := w.SetupCtx()
	app := w.App
	// oracle asset infos + prices + feeder
	for _, d := range spec.Scenario.Denoms {
		app.OracleKeeper.SetAssetInfo(ctx, oracletypes.AssetInfo{Denom: d, Display: displayOf(d), Decimal: 6})
	}
	app.OracleKeeper.SetPriceFeeder(ctx, oracletypes.PriceFeeder{Feeder: w.Feeder.Addr.String(), IsActive: true})
	for _, disp := range sortedKeys(spec.Prices) {
		app.OracleKeeper.SetPrice(ctx, oracletypes.Price{
			Asset: disp, Price: sdkmath.LegacyMustNewDecFromStr(spec.Prices[disp]), Source: "elys",
			Provider: w.Feeder.Addr.String(), Timestamp: uint64(ctx.BlockTime().Unix()), BlockHeight: uint64(ctx.BlockHeight()),
		})
	}
	ammSrv := ammkeeper.NewMsgServerImpl(*app.AmmKeeper)
	lpSrv := lpkeeper.NewMsgServerImpl(*app.LeveragelpKeeper)
	for i, ps := range spec.Pools {
		assets := []ammtypes.PoolAsset{}
		for j := 0; j < 2; j++ {
			amt, ok := sdkmath.NewIntFromString(ps.Amounts[j])
			if !ok {
				return nil, fmt.Errorf("pool %d bad amount", i)
			}
			assets = append(assets, ammtypes.PoolAsset{Token: sdk.NewCoin(ps.Denoms[j], amt), Weight: sdkmath.NewInt(ps.Weights[j]),
				ExternalLiquidityRatio: sdkmath.LegacyNewDec(1)})
		}
		sort.Slice(assets, func(a, b int) bool { return strings.Compare(assets[a].Token.Denom, assets[b].Token.Denom) < 0 })
		msg := &ammtypes.MsgCreatePool{
			Sender:     w.Admin.Addr.String(),
			PoolParams: ammtypes.PoolParams{UseOracle: ps.UseOracle, SwapFee: sdkmath.LegacyMustNewDecFromStr(ps.SwapFee), FeeDenom: ptypes.BaseCurrency},
			PoolAssets: assets,
		}
		if err := msg.ValidateBasic(); err != nil {
			return nil, fmt.Errorf("create pool %d validate: %w", i, err)
		}
		resp, err := ammSrv.CreatePool(ctx, msg)
		if err != nil {
			return nil, fmt.Errorf("create pool %d: %w", i, err)
		}
		if ps.Leverage {
			_, err := lpSrv.AddPool(ctx, &lptypes.MsgAddPool{Authority: GovAddr(),
				Pool: lptypes.AddPool{AmmPoolId: resp.PoolID, LeverageMax: sdkmath.LegacyNewDec(10)}})
			if err != nil {
				return nil, fmt.Errorf("leveragelp add pool %d: %w", i, err)
			}
		}
	}
	for _, disp := range sortedKeys(spec.SkewPrices) {
		app.OracleKeeper.SetPrice(ctx, oracletypes.Price{
			Asset: disp, Price: sdkmath.LegacyMustNewDecFromStr(spec.SkewPrices[disp]), Source: "elys",
			Provider: w.Feeder.Addr.String(), Timestamp: uint64(ctx.BlockTime().Unix()) + 1, BlockHeight: uint64(ctx.BlockHeight()),
		})
	}
	if spec.FundTreasury != "" {
		amt, ok := sdkmath.NewIntFromString(spec.FundTreasury)
		if !ok {
			return nil, fmt.Errorf("bad fund_treasury")
		}
		for _, p := range app.AmmKeeper.GetAllPool(ctx) {
			if !p.PoolParams.UseOracle {
				continue
			}
			for _, a := range p.PoolAssets {
				if err := app.BankKeeper.SendCoins(ctx, w.Admin.Addr, sdk.MustAccAddressFromBech32(p.RebalanceTreasury), sdk.NewCoins(sdk.NewCoin(a.Token.Denom, amt))); err != nil {
					return nil, fmt.Errorf("fund treasury: %w", err)
				}
			}
		}
	}
	if spec.EdenPerYear > 0 {
		app.TokenomicsKeeper.SetTimeBasedInflation(ctx, tokenomicstypes.TimeBasedInflation{
			StartBlockHeight: 1, EndBlockHeight: 100_000_000, Description: "verif", Authority: GovAddr(),
			Inflation: &tokenomicstypes.InflationEntry{LmRewards: spec.EdenPerYear, IcsStakingRewards: spec.EdenPerYear / 2, CommunityFund: 0, StrategicReserve: 0, TeamTokensVested: 0},
		})
		for _, p := range app.AmmKeeper.GetAllPool(ctx) {
			if err := w.ExecGov(&mctypes.MsgTogglePoolEdenRewards{Authority: GovAddr(), PoolId: p.PoolId, Enable: true}); err != nil {
				return nil, err
			}
		}
	}
	for _, d := range spec.RewardDenoms {
		if err := w.ExecGov(&mctypes.MsgAddExternalRewardDenom{Authority: GovAddr(), RewardDenom: d, MinAmount: sdkmath.NewInt(1), Supported: true}); err != nil {
			return nil, err
		}
	}
	for _, js := range spec.GovMsgs {
		if err := ApplyEnv(w, EnvAction{Kind: "gov_msg", Args: map[string]string{"msg": js}}); err != nil {
			return nil, err
		}
	}
	w.EndBlock(5e9)
	if w.BlockErr != nil {
		return nil, w.BlockErr
	}
	return w, nil
}
