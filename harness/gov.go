package harness

import (
	"fmt"
	"strings"
	"time"

	sdk "github.com/cosmos/cosmos-sdk/types"
	govv1 "github.com/cosmos/cosmos-sdk/x/gov/types/v1"

	sdkmath "cosmossdk.io/math"
	ptypes "github.com/elys-network/elys/x/parameter/types"
)

// Real governance. A governance message can reach the chain in two ways:
//
//   - as an environment action (env.go): executed through the router between two blocks, i.e. in effect at the very
//     start of the next block – cheap, and the only way to place a change at an exact point of a history;
//   - as a real proposal: the delegator (who holds the genesis validator's delegation) signs one transaction with
//     MsgSubmitProposal (deposit included, so voting starts at once) and MsgVote(yes); when the voting period has
//     run out the gov module's *end-blocker* tallies and executes the message – after the transactions of that block
//     and before the end-blockers of amm (queued swaps), perpetual, leveragelp, masterchef, estaking and tradeshield.
//     That ordering is what the environment path cannot produce.
const (
	GovVotingPeriod = 3 * time.Second
	GovMinDeposit   = 1_000_000
)

// SubmitProposal queues the delegator's [submit, vote yes] transaction for the pending block.
func (w *World) SubmitProposal(msgs []sdk.Msg, expedited bool) error {
	ctx := w.ReadCtx()
	id, err := w.App.GovKeeper.ProposalID.Peek(ctx)
	if err != nil {
		return err
	}
	// proposals already queued in this block take the ids before ours
	for _, p := range w.Pending {
		if strings.HasSuffix(p.MsgType, "gov.v1.MsgSubmitProposal") {
			id++
		}
	}
	dep := int64(GovMinDeposit)
	if expedited {
		dep *= 2
	}
	sub, err := govv1.NewMsgSubmitProposal(msgs, sdk.NewCoins(sdk.NewCoin(ptypes.Elys, sdkmath.NewInt(dep))), w.Delegator.Addr.String(),
		"", "verif proposal", fmt.Sprintf("generated proposal %d", id), expedited)
	if err != nil {
		return err
	}
	vote := govv1.NewMsgVote(w.Delegator.Addr, id, govv1.OptionYes, "")
	w.SubmitMultiFee(w.Delegator, DefaultFee, sub, vote)
	return nil
}

// proposalOutcomes reads the gov end-blocker's events of a block: how many proposals passed / failed / were rejected.
func proposalOutcomes(blk *BlockRecord) (passed, failed, rejected int) {
	for _, e := range blk.Events {
		if e.Type != "active_proposal" {
			continue
		}
		switch attr(e, "proposal_result") {
		case "proposal_passed":
			passed++
		case "proposal_failed":
			failed++
		case "proposal_rejected":
			rejected++
		}
	}
	return
}
