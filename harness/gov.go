package harness

import (
	"fmt"
	"strings"
	"time"

	sdk "github.com/cosmos/cosmos-sdk/types"
	govv1 "github.com/cosmos/cosmos-sdk/x/gov/types/v1"

	sdkmath "cosmossdk.io/math"
	upgradetypes "cosmossdk.io/x/upgrade/types"
	ptypes "github.com/elys-network/elys/x/parameter/types"
)

// Real governance. A governance message can reach the chain in two ways:
//
//   - as an environment action (env.go): executed through the router between two blocks, i.e. in effect at the very
//     start of the next block – cheap, and the only way to place a change at an exact point of a history;
//   - as a real proposal: the delegator (who holds the genesis validator's delegation) signs one transaction with
//     MsgSubmitProposal (deposit included, so voting starts at once) and MsgVote(yes); when the voting period has
//     run out the gov module's *end-blocker* tallies and executes the message – after the transactions of that block
//     and before the end-blockers of amm (queued swaps), perpetual, leveragelp, masterchef, estaking and tradeshield.
//     That ordering is what the environment path cannot produce.
const (
	GovVotingPeriod = 3 * time.Second
	GovMinDeposit   = 1_000_000
)

// SubmitProposal queues the delegator's [submit, vote yes] transaction for the pending block.
func (w *World) SubmitProposal(msgs []sdk.Msg, expedited bool) error {
	ctx := w.ReadCtx()
	id, err := w.App.GovKeeper.ProposalID.Peek(ctx)
	if err != nil {
		return err
	}
	// proposals already queued in this block take the ids before ours
	for _, p := range w.Pending {
		if strings.HasSuffix(p.MsgType, "gov.v1.MsgSubmitProposal") {
			id++
		}
	}
	dep := int64(GovMinDeposit)
	if expedited {
		dep *= 2
	}
	sub, err := govv1.NewMsgSubmitProposal(msgs, sdk.NewCoins(sdk.NewCoin(ptypes.Elys, sdkmath.NewInt(dep))), w.Delegator.Addr.String(),
		"", "verif proposal", fmt.Sprintf("generated proposal %d", id), expedited)
	if err != nil {
		return err
	}
	vote := govv1.NewMsgVote(w.Delegator.Addr, id, govv1.OptionYes, "")
	w.SubmitMultiFee(w.Delegator, DefaultFee, sub, vote)
	return nil
}

// proposalOutcomes reads the gov end-blocker's events of a block: how many proposals passed / failed / were rejected.
func proposalOutcomes(blk *BlockRecord) (passed, failed, rejected int) {
	for _, e := range blk.Events {
		if e.Type != "active_proposal" {
			continue
		}
		switch attr(e, "proposal_result") {
		case "proposal_passed":
			passed++
		case "proposal_failed":
			failed++
		case "proposal_rejected":
			rejected++
		}
	}
	return
}

// ---- governance by users (transaction grammar)

// genGovSubmit: any user files a proposal: text only, a message that will fail when executed (no upgrade is
// scheduled), or a parameter update that re-submits a module's current parameters. The deposit is the minimum
// (voting starts at once), or less (the proposal waits in its deposit period).
func genGovSubmit(g *G) *Op {
	u := g.User()
	gov := GovAddr()
	var inner []sdk.Msg
	switch g.Int("gov/what", 0, 3) {
	case 1:
		inner = []sdk.Msg{&upgradetypes.MsgCancelUpgrade{Authority: gov}}
	case 2, 3:
		mod := []string{"amm", "perpetual", "leveragelp", "stablestake", "masterchef", "tradeshield"}[g.Pick("gov/mod", 6)]
		if g.H != nil {
			if e := GenParamChangeFor(g.H, g, mod); e != nil {
				var m sdk.Msg
				if err := g.W.App.AppCodec().UnmarshalInterfaceJSON([]byte(e.Args["msg"]), &m); err == nil {
					inner = []sdk.Msg{m}
				}
			}
		}
	}
	dep := int64(GovMinDeposit)
	if g.Int("gov/lowdep", 0, 4) == 0 {
		dep = int64(g.Int("gov/dep", 1, GovMinDeposit-1))
	}
	m, err := govv1.NewMsgSubmitProposal(inner, sdk.NewCoins(sdk.NewCoin(ptypes.Elys, sdkmath.NewInt(dep))), u.Addr.String(), "", "user proposal", "generated", false)
	if err != nil {
		return nil
	}
	return &Op{Signer: u, Kind: "gov.submit", Msg: m}
}

// genGovVote: a user votes on one of the most recent proposals – whatever it has staked (the ante handler demands a
// minimum stake of voters) and whatever the proposal's state.
func genGovVote(g *G) *Op {
	u := g.User()
	// three times in four the voter is somebody who has staked something – much, little or next to nothing
	if val, err := sdk.ValAddressFromBech32(g.W.ValAddr); err == nil && g.Int("gov/staker", 0, 3) > 0 {
		var stakers []*Account
		ctx := g.W.ReadCtx()
		for _, a := range g.W.Accounts {
			if g.Busy[a.Addr.String()] {
				continue
			}
			if d, err := g.W.App.StakingKeeper.GetDelegation(ctx, a.Addr, val); err == nil && d.Shares.IsPositive() {
				stakers = append(stakers, a)
			}
		}
		if len(stakers) > 0 {
			u = stakers[g.Pick("gov/stakerwho", len(stakers))]
		}
	}
	next, err := g.W.App.GovKeeper.ProposalID.Peek(g.W.ReadCtx())
	if err != nil || next <= 1 {
		return nil
	}
	back := uint64(g.Int("gov/voteback", 1, 3))
	if back >= next {
		back = next - 1
	}
	opt := []govv1.VoteOption{govv1.OptionYes, govv1.OptionYes, govv1.OptionNo, govv1.OptionAbstain, govv1.OptionNoWithVeto}[g.Pick("gov/opt", 5)]
	return &Op{Signer: u, Kind: "gov.vote", Msg: govv1.NewMsgVote(u.Addr, next-back, opt, "")}
}

// genGovDeposit: a user adds to the deposit of a recent proposal.
func genGovDeposit(g *G) *Op {
	u := g.User()
	next, err := g.W.App.GovKeeper.ProposalID.Peek(g.W.ReadCtx())
	if err != nil || next <= 1 {
		return nil
	}
	back := uint64(g.Int("gov/depback", 1, 3))
	if back >= next {
		back = next - 1
	}
	return &Op{Signer: u, Kind: "gov.deposit", Msg: govv1.NewMsgDeposit(u.Addr, next-back, sdk.NewCoins(sdk.NewCoin(ptypes.Elys, sdkmath.NewInt(int64(g.Int("gov/depamt", 1, 2*GovMinDeposit))))))}
}


// genGovVoteDelegator: the genesis delegator – the account whose vote decides – votes on one of the most recent
// proposals, so that proposals filed by users pass (or are vetoed) and get executed by the gov end-blocker too.
func genGovVoteDelegator(g *G) *Op {
	d := g.W.Delegator
	if g.Busy[d.Addr.String()] {
		return nil
	}
	next, err := g.W.App.GovKeeper.ProposalID.Peek(g.W.ReadCtx())
	if err != nil || next <= 1 {
		return nil
	}
	back := uint64(g.Int("gov/dvoteback", 1, 2))
	if back >= next {
		back = next - 1
	}
	opt := []govv1.VoteOption{govv1.OptionYes, govv1.OptionYes, govv1.OptionYes, govv1.OptionNo, govv1.OptionNoWithVeto}[g.Pick("gov/dopt", 5)]
	return &Op{Signer: d, Kind: "gov.vote_delegator", Msg: govv1.NewMsgVote(d.Addr, next-back, opt, "")}
}
