package harness

import (
	abci "github.com/cometbft/cometbft/abci/types"
	sdk "github.com/cosmos/cosmos-sdk/types"
)

// allEvents returns the block's begin/end-block events plus the events of its
// successful txs (a failed tx keeps only ante events; they are skipped).
func allEvents(blk *BlockRecord) []abci.Event {
	out := append([]abci.Event{}, blk.Events...)
	for _, tx := range blk.Txs {
		if tx.Code == 0 {
			out = append(out, tx.Events...)
		}
	}
	return out
}

func attr(e abci.Event, key string) string {
	for _, a := range e.Attributes {
		if a.Key == key {
			return a.Value
		}
	}
	return ""
}

// TransfersFrom sums bank "transfer" events whose sender is addr.
func TransfersFrom(blk *BlockRecord, addr string) sdk.Coins {
	total := sdk.Coins{}
	for _, e := range allEvents(blk) {
		if e.Type == "transfer" && attr(e, "sender") == addr {
			if c, err := sdk.ParseCoinsNormalized(attr(e, "amount")); err == nil {
				total = total.Add(c...)
			}
		}
	}
	return total
}

// TransfersTo sums bank "transfer" events whose recipient is addr.
func TransfersTo(blk *BlockRecord, addr string) sdk.Coins {
	total := sdk.Coins{}
	for _, e := range allEvents(blk) {
		if e.Type == "transfer" && attr(e, "recipient") == addr {
			if c, err := sdk.ParseCoinsNormalized(attr(e, "amount")); err == nil {
				total = total.Add(c...)
			}
		}
	}
	return total
}

// Minted / Burned: bank coinbase / burn events by module address.
func MintedBy(blk *BlockRecord) map[string]sdk.Coins {
	out := map[string]sdk.Coins{}
	for _, e := range allEvents(blk) {
		if e.Type == "coinbase" {
			if c, err := sdk.ParseCoinsNormalized(attr(e, "amount")); err == nil {
				out[attr(e, "minter")] = out[attr(e, "minter")].Add(c...)
			}
		}
	}
	return out
}

func BurnedBy(blk *BlockRecord) map[string]sdk.Coins {
	out := map[string]sdk.Coins{}
	for _, e := range allEvents(blk) {
		if e.Type == "burn" {
			if c, err := sdk.ParseCoinsNormalized(attr(e, "amount")); err == nil {
				out[attr(e, "burner")] = out[attr(e, "burner")].Add(c...)
			}
		}
	}
	return out
}
