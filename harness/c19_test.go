package harness

import (
	"bytes"
	"encoding/hex"
	"fmt"
	"os"
	"path/filepath"
	"sort"
	"testing"
	"time"

	"pgregory.net/rapid"
)

// C19: replica differential. Replica A generates and executes a history. Replica B (fresh
// app, same genesis bytes) and replica C (same, but the app object is discarded and
// rebuilt from its database after generated heights) execute the recorded blocks; app
// hash and the deterministic part of every tx result must agree after every block.

var ProfileC19 = &Profile{
	MultiMsg: true,
	VaryFees: true,
	ID:       "C19", Name: "determinism", MinBlocks: 10, MaxBlocks: 45, MaxTxs: 6, Spec: withPoolPricedElys(withModestUser(withBurner(specDefault))),
	// governance is part of the history: proposals by users and by the genesis delegator (executed in the gov end-blocker),
	// votes by accounts of any stake (the vote ante handler has a stake threshold), parameter changes between blocks
	Weights:  withWeights(allWeights(), map[string]int{"bank.send_to_burn": 6, "gov.vote": 9, "gov.submit": 5, "gov.vote_delegator": 5, "commitment.stake": 7}),
	PreBlock: govModules("amm", "perpetual", "masterchef", "leveragelp"),
	ExtraOps: c04ExtraOps, // swap batches with several requests per block
	Rule:     "history with >=20 blocks, >=1 gap >= 1 day (epoch boundary), >=2 reward denoms credited and >=1 swap batch with >=2 accepted requests; replicas: fresh app, and app restarted from its DB at generated heights",
	NonTrivial: func(h *History) bool {
		return len(h.Trace.Blocks) >= 20 && h.Labels["gap>=1d"] > 0 && h.Labels["c19-swap-batch>=2"] > 0
	},
	Check: func(h *History, blk *BlockRecord) []Violation {
		n := 0
		kinds := h.Trace.Blocks[len(h.Trace.Blocks)-1].Txs
		for i, tx := range blk.Txs {
			if tx.Code == 0 && i < len(kinds) && len(kinds[i].Kind) > 4 && kinds[i].Kind[:4] == "c04." {
				n++
			}
		}
		if n >= 2 {
			h.Labels["c19-swap-batch>=2"]++
		}
		return nil
	},
}

type blockObs struct {
	Hash    []byte
	Results []string
}

func observe(blk *BlockRecord) blockObs {
	o := blockObs{Hash: blk.AppHash}
	for _, tx := range blk.Txs {
		o.Results = append(o.Results, fmt.Sprintf("code=%d gas=%d data=%x", tx.Code, tx.GasUsed, tx.Data))
	}
	return o
}

// replayReplica executes the recorded blocks of a on a fresh world; restartAt lists the
// heights (block indexes) after which the app is rebuilt from its database.
func replayReplica(a *History, restartAt map[int]bool, name string) *Violation {
	return replayReplicaOn(a, restartAt, name, "")
}

// replayReplicaOn: diskDir != "" runs the replica on an on-disk goleveldb database that is closed and
// re-opened at every restart point; the directory is removed afterwards.
func replayReplicaOn(a *History, restartAt map[int]bool, name, diskDir string) *Violation {
	if diskDir != "" {
		_ = os.RemoveAll(diskDir)
		defer os.RemoveAll(diskDir)
	}
	w, err := BuildWorldOn(a.Trace.Spec, diskDir)
	if diskDir != "" && w != nil {
		defer func() { _ = w.DB.Close() }()
	}
	if err != nil {
		return &Violation{Sig: "C19/replica-setup", Detail: err.Error()}
	}
	if !bytes.Equal(w.Genesis, a.W.Genesis) {
		return &Violation{Sig: "C19/genesis-differs", Detail: "the same scenario produced different genesis bytes"}
	}
	// blocks of a.W: [0]=first block, [1]=setup block, then the history
	base := len(a.W.Blocks) - len(a.Trace.Blocks)
	for i := 0; i < base; i++ {
		if !bytes.Equal(w.Blocks[i].AppHash, a.W.Blocks[i].AppHash) {
			return &Violation{Sig: "C19/app-hash-differs", Detail: fmt.Sprintf("replica %s: setup block %d hash %x != %x", name, i, w.Blocks[i].AppHash, a.W.Blocks[i].AppHash)}
		}
	}
	for i, tb := range a.Trace.Blocks {
		for _, e := range tb.Env {
			if err := ApplyEnv(w, e); err != nil {
				return &Violation{Sig: "C19/replica-setup", Detail: err.Error()}
			}
		}
		orig := a.W.Blocks[base+i]
		// feed the very same tx bytes
		for _, tx := range orig.Txs {
			w.Pending = append(w.Pending, TxRecord{Signer: tx.Signer, MsgType: tx.MsgType, MsgJSON: tx.MsgJSON, Fee: tx.Fee, Bytes: tx.Bytes, Msg: tx.Msg, JoinPrev: tx.JoinPrev})
		}
		blk := w.EndBlock(time.Duration(tb.GapNs))
		if w.BlockErr != nil {
			if a.W.BlockErr != nil && i == len(a.Trace.Blocks)-1 {
				return nil // both failed at the same block (C18's business)
			}
			return &Violation{Sig: "C19/replica-block-failed", Detail: fmt.Sprintf("replica %s failed at block %d where the original did not: %v", name, i, w.BlockErr)}
		}
		want, got := observe(&orig), observe(blk)
		if !bytes.Equal(want.Hash, got.Hash) {
			return &Violation{Sig: "C19/app-hash-differs", Detail: fmt.Sprintf("replica %s: after history block %d (height %d) app hash %x != original %x (txs: %s)", name, i, blk.Height, got.Hash, want.Hash, blockSummary(blk))}
		}
		for j := range want.Results {
			if j >= len(got.Results) || want.Results[j] != got.Results[j] {
				return &Violation{Sig: "C19/tx-result-differs", Detail: fmt.Sprintf("replica %s: block %d tx %d (%s): %s != original %s", name, i, j, orig.Txs[j].MsgType, got.Results[j], want.Results[j])}
			}
		}
		if restartAt[i] {
			if err := w.Restart(); err != nil {
				return &Violation{Sig: "C19/restart-failed", Detail: err.Error()}
			}
		}
	}
	return nil
}

// onDisk: every history in the thorough tier, one in four in the quick tier, gets a third replica whose
// application database lives in files (goleveldb) and is closed and re-opened at each restart point.
func onDisk(rt *rapid.T) bool {
	if os.Getenv("VERIF_TIER") == "thorough" {
		return true
	}
	return UniformDraw(rt, "ondisk", 4) == 0
}

func TestC19(t *testing.T) {
	p := ProfileC19
	if path := os.Getenv("VERIF_REPLAY"); path != "" {
		tr, err := LoadTrace(path)
		if err != nil {
			t.Fatal(err)
		}
		if v := replayAndCompareRecorded(p, tr); v != nil {
			t.Fatalf("VIOLATION C19 (replay): %s — %s", v.Sig, v.Detail)
		}
		return
	}
	traceDir := os.Getenv("VERIF_C19_TRACEDIR")
	everyHeight := os.Getenv("VERIF_TIER") == "thorough"
	rapid.Check(t, func(rt *rapid.T) {
		h, _ := runHistoryCore(rt, p)
		if h.W.BlockErr != nil {
			h.Labels["aborted-by-block-failure"]++
		}
		restartAt := map[int]bool{}
		n := len(h.Trace.Blocks)
		if everyHeight {
			for i := 0; i < n; i++ {
				restartAt[i] = true
			}
		} else {
			for k := 0; k < 3 && n > 0; k++ {
				restartAt[UniformDraw(rt, "crashpoint", n)] = true
			}
		}
		h.Labels["restarts"] += len(restartAt)
		var viol *Violation
		if v := replayReplica(h, nil, "B(fresh)"); v != nil {
			viol = v
		} else if v := replayReplica(h, restartAt, "C(restarted)"); v != nil {
			viol = v
		} else if onDisk(rt) {
			dir := filepath.Join(workDir(), fmt.Sprintf("c19-disk-%d-%s", os.Getpid(), h.traceHash()))
			h.Labels["on-disk-replicas"]++
			if v := replayReplicaOn(h, restartAt, "D(on-disk, restarted)", dir); v != nil {
				viol = v
			}
		}
		h.emitStats(viol != nil)
		if traceDir != "" && viol == nil {
			_ = os.MkdirAll(traceDir, 0o755)
			writeTraceTo(filepath.Join(traceDir, h.traceHash()+".json"), &h.Trace)
		}
		if viol != nil {
			h.Trace.Violations = []Violation{*viol}
			writeFailTrace(&h.Trace)
			rt.Fatalf("VIOLATION C19: %s — %s", viol.Sig, viol.Detail)
		}
	})
}

// replayAndCompareRecorded re-executes a trace (re-signing deterministically) and compares
// every block's app hash with the one recorded in the trace by the process that generated it.
func replayAndCompareRecorded(p *Profile, tr *Trace) *Violation {
	h, err := newHistory(p, tr.Spec)
	if err != nil {
		return &Violation{Sig: "C19/replica-setup", Detail: err.Error()}
	}
	for i, b := range tr.Blocks {
		for _, e := range b.Env {
			if err := ApplyEnv(h.W, e); err != nil {
				return &Violation{Sig: "C19/replica-setup", Detail: err.Error()}
			}
		}
		kinds, err := h.submitTraceTxs(b)
		if err != nil {
			return &Violation{Sig: "C19/replica-setup", Detail: err.Error()}
		}
		h.step(time.Duration(b.GapNs), b.Env, kinds)
		if h.W.BlockErr != nil {
			return nil
		}
		got := hex.EncodeToString(h.W.LastBlock().AppHash)
		if b.Hash != "" && got != b.Hash {
			return &Violation{Sig: "C19/app-hash-differs-across-processes", Detail: fmt.Sprintf("block %d: app hash %s != %s recorded by the generating process", i, got, b.Hash)}
		}
	}
	return nil
}

// TestC19CrossProcess replays every trace another process wrote to VERIF_C19_TRACEDIR
// (different map seeds, different wall clock) and compares the recorded hashes.
func TestC19CrossProcess(t *testing.T) {
	dir := os.Getenv("VERIF_C19_TRACEDIR")
	if dir == "" {
		t.Skip("no trace dir")
	}
	files, _ := filepath.Glob(filepath.Join(dir, "*.json"))
	sort.Strings(files)
	n := 0
	for _, f := range files {
		tr, err := LoadTrace(f)
		if err != nil {
			t.Fatalf("harness: %v", err)
		}
		if v := replayAndCompareRecorded(ProfileC19, tr); v != nil {
			tr.Violations = []Violation{*v}
			writeFailTrace(tr)
			t.Fatalf("VIOLATION C19: %s — %s (trace %s)", v.Sig, v.Detail, f)
		}
		n++
	}
	EmitStats(map[string]any{"summary": true, "evaluations": n, "labels": map[string]int{"cross-process-replays": n}})
	t.Logf("OK, passed %d tests (cross-process replays)", n)
}
