package harness

import (
	"encoding/json"
	"fmt"
	"os"
	"strings"
	"testing"
	"time"

	sdkmath "cosmossdk.io/math"
	sdk "github.com/cosmos/cosmos-sdk/types"
	"pgregory.net/rapid"

	ptypes "github.com/elys-network/elys/x/parameter/types"
	sstypes "github.com/elys-network/elys/x/stablestake/types"
)

// C07 (E3): vault share issue/redeem fairness and the 90% lending cap.

type c07Op struct {
	Kind   string `json:"kind"` // bond | unbond | borrow | repay | accrue | roundtrip
	Who    int    `json:"who"`
	Amount string `json:"amount,omitempty"`
	Secs   int64  `json:"secs,omitempty"`
	Split  int    `json:"split_pct,omitempty"` // roundtrip: withdraw the minted shares in two pieces, the first being this percentage
}

type c07Machine struct {
	w        *World
	ctx      sdk.Context
	lenders  []*Account
	borrower sdk.AccAddress
	Ops      []c07Op
	Labels   map[string]bool
	NT       bool
}

func newC07Machine(w *World) *c07Machine {
	return &c07Machine{w: w, ctx: caseCtx(w), lenders: w.Accounts[:4], borrower: w.Accounts[4].Addr, Labels: map[string]bool{}}
}

func (m *c07Machine) tv() sdkmath.Int { return m.w.App.StablestakeKeeper.GetParams(m.ctx).TotalValue }
func (m *c07Machine) cash() sdkmath.Int {
	return m.w.App.BankKeeper.GetBalance(m.ctx, sdk.MustAccAddressFromBech32(modAddr(sstypes.ModuleName)), ptypes.BaseCurrency).Amount
}
func (m *c07Machine) supply() sdkmath.Int {
	return m.w.App.BankKeeper.GetSupply(m.ctx, sstypes.GetShareDenom()).Amount
}
func (m *c07Machine) rate() sdkmath.LegacyDec {
	return m.w.App.StablestakeKeeper.GetRedemptionRate(m.ctx)
}
func (m *c07Machine) shares(a *Account) sdkmath.Int {
	c := m.w.App.CommitmentKeeper.GetCommitments(m.ctx, a.Addr)
	return c.GetCommittedAmountForDenom(sstypes.GetShareDenom())
}
func (m *c07Machine) usdc(addr sdk.AccAddress) sdkmath.Int {
	return m.w.App.BankKeeper.GetBalance(m.ctx, addr, ptypes.BaseCurrency).Amount
}

// allowance: one share's worth, rounded up, plus one base unit
func allowance(rate sdkmath.LegacyDec) sdkmath.Int {
	if rate.IsNil() || rate.LT(sdkmath.LegacyOneDec()) {
		return sdkmath.NewInt(2)
	}
	return rate.Ceil().TruncateInt().AddRaw(1)
}

func redeemable(shares sdkmath.Int, rate sdkmath.LegacyDec) sdkmath.Int {
	return shares.ToLegacyDec().Mul(rate).RoundInt()
}

// othersCheck compares every other lender's redeemable value and the rate before/after an op of `actor`.
func (m *c07Machine) snapshotOthers(actor int) (map[int]sdkmath.Int, sdkmath.LegacyDec, sdkmath.Int) {
	r := m.rate()
	out := map[int]sdkmath.Int{}
	for i, l := range m.lenders {
		if i != actor {
			out[i] = redeemable(m.shares(l), r)
		}
	}
	return out, r, m.supply()
}

func (m *c07Machine) compareOthers(actor int, before map[int]sdkmath.Int, rateBefore sdkmath.LegacyDec, supplyBefore sdkmath.Int, what string) error {
	r := m.rate()
	if m.supply().IsZero() || supplyBefore.IsZero() {
		return nil
	}
	allow := allowance(rateBefore)
	total := sdkmath.ZeroInt()
	for i, l := range m.lenders {
		if i == actor {
			continue
		}
		now := redeemable(m.shares(l), r)
		if now.LT(before[i]) {
			total = total.Add(before[i].Sub(now))
		}
	}
	if total.GT(allow) {
		return fmt.Errorf("%s by lender %d reduced what the other lenders' shares redeem for by %s in total (allowance one share's worth = %s; rate %s -> %s)", what, actor, total, allow, rateBefore, r)
	}
	// the rate itself must not fall by more than allowance/supply
	if r.LT(rateBefore) {
		drop := rateBefore.Sub(r)
		maxDrop := allow.ToLegacyDec().Quo(m.supply().ToLegacyDec())
		if drop.GT(maxDrop) {
			return fmt.Errorf("%s by lender %d lowered the redemption rate %s -> %s (more than %s/supply)", what, actor, rateBefore, r, allow)
		}
	}
	return nil
}

func (m *c07Machine) apply(op c07Op) error {
	m.Ops = append(m.Ops, op)
	w := m.w
	amt := sdkmath.ZeroInt()
	if op.Amount != "" {
		amt, _ = sdkmath.NewIntFromString(op.Amount)
	}
	if amt.IsNegative() {
		return nil
	}
	switch op.Kind {
	case "bond", "unbond":
		l := m.lenders[op.Who%len(m.lenders)]
		before, rb, sb := m.snapshotOthers(op.Who % len(m.lenders))
		var msg sdk.Msg = &sstypes.MsgBond{Creator: l.Addr.String(), Amount: amt}
		if op.Kind == "unbond" {
			msg = &sstypes.MsgUnbond{Creator: l.Addr.String(), Amount: amt}
		}
		err, pan := execMsg(w, m.ctx, msg)
		if pan {
			return fmt.Errorf("%s(%s) panicked: %v", op.Kind, amt, err)
		}
		if err != nil {
			return nil // rejected cleanly
		}
		m.Labels[op.Kind+"-ok"] = true
		return m.compareOthers(op.Who%len(m.lenders), before, rb, sb, op.Kind+"("+amt.String()+")")
	case "recreate":
		// the whole life cycle inside one block (no begin-blocker in between): the borrower repays everything, every
		// lender leaves, then two lenders come back and the first of them leaves again at once. Each step goes through
		// the ordinary operations and their oracles
		d := w.App.StablestakeKeeper.GetDebt(m.ctx, m.borrower)
		if owed := d.GetTotalLiablities(); owed.IsPositive() {
			if verr := m.apply(c07Op{Kind: "repay", Amount: owed.String()}); verr != nil {
				return verr
			}
		}
		if verr := m.apply(c07Op{Kind: "emptyvault"}); verr != nil {
			return verr
		}
		a, b := op.Who%len(m.lenders), (op.Who+1)%len(m.lenders)
		if verr := m.apply(c07Op{Kind: "bond", Who: a, Amount: op.Amount}); verr != nil {
			return verr
		}
		if verr := m.apply(c07Op{Kind: "bond", Who: b, Amount: amt.MulRaw(3).String()}); verr != nil {
			return verr
		}
		if sh := m.shares(m.lenders[a]); sh.IsPositive() {
			before := m.usdc(m.lenders[a].Addr)
			if verr := m.apply(c07Op{Kind: "unbond", Who: a, Amount: sh.String()}); verr != nil {
				return verr
			}
			// the lender who bonded amt and left at once must not have gained
			if got := m.usdc(m.lenders[a].Addr).Sub(before); m.Labels["vault-emptied"] && got.GT(amt.Add(allowance(m.rate()))) {
				return fmt.Errorf("after the vault was emptied and re-created in one block, a lender deposited %s and immediately withdrew %s", amt, got)
			}
		}
		m.Labels["recreated-in-one-block"] = true
		return nil
	case "emptyvault":
		// every lender withdraws everything (possible only while nothing is lent out): the vault is emptied, and
		// whatever is bonded next re-creates it
		for i, l := range m.lenders {
			sh := m.shares(l)
			if !sh.IsPositive() {
				continue
			}
			before, rb, sb := m.snapshotOthers(i)
			err, pan := execMsg(w, m.ctx, &sstypes.MsgUnbond{Creator: l.Addr.String(), Amount: sh})
			if pan {
				return fmt.Errorf("unbond(%s) panicked: %v", sh, err)
			}
			if err != nil {
				return nil
			}
			if verr := m.compareOthers(i, before, rb, sb, "unbond(all)"); verr != nil {
				return verr
			}
		}
		if m.supply().IsZero() {
			m.Labels["vault-emptied"] = true
		}
		return nil
	case "roundtrip":
		// on a branch: bond amt, then immediately unbond exactly the minted shares
		l := m.lenders[op.Who%len(m.lenders)]
		saved := m.ctx
		branch, _ := m.ctx.CacheContext()
		m.ctx = branch
		defer func() { m.ctx = saved }()
		r := m.rate()
		s0, u0 := m.shares(l), m.usdc(l.Addr)
		if err, pan := execMsg(w, m.ctx, &sstypes.MsgBond{Creator: l.Addr.String(), Amount: amt}); err != nil {
			if pan {
				return fmt.Errorf("bond(%s) panicked: %v", amt, err)
			}
			return nil
		}
		minted := m.shares(l).Sub(s0)
		if !minted.IsPositive() {
			// nothing minted: the deposit must not have been taken either beyond the allowance
			if lost := u0.Sub(m.usdc(l.Addr)); lost.GT(allowance(r)) {
				m.Labels["deposit-minted-no-shares"] = true
			}
			return nil
		}
		pieces := []sdkmath.Int{minted}
		if op.Split > 0 && op.Split < 100 {
			first := minted.MulRaw(int64(op.Split)).QuoRaw(100)
			if first.IsPositive() && first.LT(minted) {
				pieces = []sdkmath.Int{first, minted.Sub(first)}
			}
		}
		for _, piece := range pieces {
			if err, pan := execMsg(w, m.ctx, &sstypes.MsgUnbond{Creator: l.Addr.String(), Amount: piece}); err != nil {
				if pan {
					return fmt.Errorf("unbond(%s) panicked: %v", piece, err)
				}
				return nil // e.g. not enough cash: rejected cleanly
			}
		}
		back := m.usdc(l.Addr).Sub(u0).Add(amt) // what came back for the amt deposited
		allow := allowance(r).MulRaw(int64(len(pieces)))
		if back.GT(amt.Add(allow)) {
			return fmt.Errorf("deposit %s then immediate withdrawal of the %s minted shares in %d piece(s) returned %s (> deposit + one share's worth per withdrawal %s) at rate %s", amt, minted, len(pieces), back, allow, r)
		}
		if len(pieces) > 1 {
			m.Labels["roundtrip-split"] = true
		}
		m.Labels["roundtrip"] = true
		if fracDigits(r) >= 6 {
			m.NT = true
		}
		return nil
	case "borrow":
		if !amt.IsPositive() {
			return nil
		}
		tv, cash := m.tv(), m.cash()
		// what is really lent out: the (only) borrower's principal plus unpaid interest, including what has
		// accrued lazily since it was last booked
		loans := w.App.StablestakeKeeper.GetDebt(m.ctx, m.borrower).GetTotalLiablities()
		err := w.App.StablestakeKeeper.Borrow(m.ctx, m.borrower, sdk.NewCoin(ptypes.BaseCurrency, amt))
		if err != nil {
			return nil
		}
		m.Labels["borrow-ok"] = true
		// success ⇒ outstanding loans (pre-state) + x ≤ 0.9·TV (pre-state)
		lhs := tv.Sub(cash).Add(amt).MulRaw(10)
		if lhs.GT(tv.MulRaw(9)) {
			return fmt.Errorf("a borrow of %s was granted although loans %s + %s exceed 90%% of the vault value %s", amt, tv.Sub(cash), amt, tv)
		}
		// the same against the vault's REAL value (cash + what borrowers owe), not the stored figure. Interest
		// accrued but not yet booked makes the real loans exceed the booked ones by L; the code's check then
		// admits up to L/10 more, which is granted here as slack
		slack := sdkmath.OneInt()
		if l := loans.Sub(tv.Sub(cash)); l.IsPositive() {
			slack = slack.Add(l.QuoRaw(10)).AddRaw(1)
		}
		if real := cash.Add(loans); loans.Add(amt).MulRaw(10).GT(real.MulRaw(9).Add(slack.MulRaw(10))) {
			return fmt.Errorf("a borrow of %s was granted although what borrowers owe %s + %s exceeds 90%% of the vault's real value %s (cash %s + loans %s; stored value %s)", amt, loans, amt, real, cash, loans, tv)
		}
		if tv.IsPositive() && tv.Sub(cash).MulRaw(10).GTE(tv.MulRaw(8)) {
			m.Labels["borrow-at-utilisation>=80%"] = true
			m.NT = true
		}
		return nil
	case "repay":
		d := w.App.StablestakeKeeper.GetDebt(m.ctx, m.borrower)
		if !d.Borrowed.IsPositive() {
			return nil
		}
		max := d.GetTotalLiablities()
		if amt.GT(max) {
			amt = max
		}
		if amt.GT(m.usdc(m.borrower)) || !amt.IsPositive() {
			return nil
		}
		before, rb, sb := m.snapshotOthers(-1)
		if err := w.App.StablestakeKeeper.Repay(m.ctx, m.borrower, sdk.NewCoin(ptypes.BaseCurrency, amt)); err != nil {
			return nil
		}
		m.Labels["repay-ok"] = true
		return m.compareOthers(-1, before, rb, sb, "repay")
	case "accrue":
		before, rb, sb := m.snapshotOthers(-1)
		m.ctx = m.ctx.WithBlockHeight(m.ctx.BlockHeight() + 1).WithBlockTime(m.ctx.BlockTime().Add(time.Duration(op.Secs) * time.Second))
		w.App.StablestakeKeeper.BeginBlocker(m.ctx)
		w.App.StablestakeKeeper.UpdateInterestAndGetDebt(m.ctx, m.borrower)
		return m.compareOthers(-1, before, rb, sb, "interest accrual")
	}
	return fmt.Errorf("harness: unknown op %s", op.Kind)
}

func fracDigits(d sdkmath.LegacyDec) int {
	s := d.String()
	i := strings.IndexByte(s, '.')
	if i < 0 {
		return 0
	}
	return len(strings.TrimRight(s[i+1:], "0"))
}

type c07Script struct {
	Property  string  `json:"property"`
	Kind      string  `json:"kind"`
	Violation string  `json:"violation,omitempty"`
	Ops       []c07Op `json:"ops"`
}

func replayC07Script(w *World, path string) error {
	bz, err := os.ReadFile(path)
	if err != nil {
		return fmt.Errorf("harness: %v", err)
	}
	var sc c07Script
	if err := json.Unmarshal(bz, &sc); err != nil {
		return fmt.Errorf("harness: %v", err)
	}
	m := newC07Machine(w)
	for _, op := range sc.Ops {
		if verr := m.apply(op); verr != nil {
			return verr
		}
	}
	return nil
}

func TestC07(t *testing.T) {
	w, err := keeperFixture()
	if err != nil {
		t.Fatalf("harness: %v", err)
	}
	for _, k := range loadKnown() {
		if k.Property != "C07" || k.Replay == "" {
			continue
		}
		if verr := replayC07Script(w, k.Replay); verr != nil {
			if k.Status == "open" {
				EmitStats(map[string]any{"known_replay": k.ID, "property": "C07"})
			} else {
				copyFile(k.Replay, os.Getenv("VERIF_FAILTRACE"))
				t.Fatalf("VIOLATION C07 (replay of finding script %s): %v", k.ID, verr)
			}
		}
	}
	if path := os.Getenv("VERIF_REPLAY"); path != "" {
		if verr := replayC07Script(w, path); verr != nil {
			t.Fatalf("VIOLATION C07 (replay): %v", verr)
		}
		return
	}
	sum := newSummary()
	defer sum.emit()
	rapid.Check(t, func(rt *rapid.T) {
		m := newC07Machine(w)
		fail := func(verr error) {
			if strings.HasPrefix(verr.Error(), "harness:") {
				rt.Fatalf("%v", verr)
			}
			if p := os.Getenv("VERIF_FAILTRACE"); p != "" {
				bz, _ := json.MarshalIndent(c07Script{Property: "C07", Kind: "c07-script", Violation: verr.Error(), Ops: m.Ops}, "", " ")
				_ = os.WriteFile(p, bz, 0o644)
			}
			var hs []string
			for _, o := range m.Ops {
				hs = append(hs, fmt.Sprintf("%s(%d,%s,%d)", o.Kind, o.Who, o.Amount, o.Secs))
			}
			rt.Fatalf("VIOLATION C07: %v\nhistory: %s", verr, strings.Join(hs, " "))
		}
		amount := func(label string, ref sdkmath.Int) sdkmath.Int {
			switch UniformDraw(rt, label+"/class", 8) {
			case 0:
				return sdkmath.OneInt()
			case 1:
				return sdkmath.NewInt(int64(2 + UniformDraw(rt, label+"/dust", 50)))
			case 2:
				if ref.IsPositive() {
					return ref
				}
				return sdkmath.NewInt(1000)
			case 3:
				return ref.AddRaw(int64(1 + UniformDraw(rt, label+"/over", 2)))
			case 4:
				return sdkmath.NewInt(int64(1 + UniformDraw(rt, label+"/small", 100000)))
			default:
				if !ref.IsPositive() {
					return sdkmath.NewInt(int64(1 + UniformDraw(rt, label+"/abs", 1_000_000_000)))
				}
				return maxInt(ref.MulRaw(int64(1+UniformDraw(rt, label+"/pct", 100))).QuoRaw(100), sdkmath.OneInt())
			}
		}
		// initial vault: sizes from 1 to 1e12
		scales := []int64{1, 7, 1000, 123_457, 1_000_000_000, 987_654_321_123}
		if verr := m.apply(c07Op{Kind: "bond", Who: 0, Amount: sdkmath.NewInt(scales[UniformDraw(rt, "scale", len(scales))]).String()}); verr != nil {
			fail(verr)
		}
		n := 4 + UniformDraw(rt, "nops", 30)
		for i := 0; i < n; i++ {
			var op c07Op
			who := UniformDraw(rt, "who", 4)
			switch UniformDraw(rt, "op", 13) {
			case 12:
				if UniformDraw(rt, "recreate?", 2) == 1 {
					op = c07Op{Kind: "recreate", Who: who, Amount: amount("recreate", sdkmath.NewInt(1_000_000)).String()}
				} else {
					op = c07Op{Kind: "emptyvault"}
				}
			case 0, 1, 2:
				op = c07Op{Kind: "bond", Who: who, Amount: amount("bond", m.tv()).String()}
			case 3, 4:
				op = c07Op{Kind: "unbond", Who: who, Amount: amount("unbond", m.shares(m.lenders[who])).String()}
			case 5, 6:
				// around the cap
				room := m.tv().MulRaw(9).QuoRaw(10).Sub(m.tv().Sub(m.cash()))
				op = c07Op{Kind: "borrow", Amount: amount("borrow", room).String()}
			case 7:
				op = c07Op{Kind: "repay", Amount: amount("repay", m.w.App.StablestakeKeeper.GetDebt(m.ctx, m.borrower).GetTotalLiablities()).String()}
			case 8, 9:
				secs := []int64{1, 5, 3600, 86400, 86400 * 30, 86400 * 365}
				op = c07Op{Kind: "accrue", Secs: secs[UniformDraw(rt, "secs", len(secs))]}
			default:
				op = c07Op{Kind: "roundtrip", Who: who, Amount: amount("rt", m.tv().QuoRaw(3)).String()}
				if UniformDraw(rt, "rt/split?", 2) == 1 {
					op.Split = 1 + UniformDraw(rt, "rt/split", 99)
				}
			}
			if verr := m.apply(op); verr != nil {
				fail(verr)
			}
		}
		var ls []string
		for l := range m.Labels {
			ls = append(ls, l)
		}
		var hs []string
		for _, o := range m.Ops {
			hs = append(hs, fmt.Sprintf("%s(%d,%s,%d)", o.Kind, o.Who, o.Amount, o.Secs))
		}
		sum.record(strings.Join(hs, " "), m.NT, ls, hs)
	})
}
