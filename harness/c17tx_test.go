package harness

import (
	"encoding/base64"
	"encoding/json"
	"fmt"
	"os"
	"reflect"
	"runtime/debug"
	"strings"
	"time"
	"testing"

	sdkmath "cosmossdk.io/math"
	upgradetypes "cosmossdk.io/x/upgrade/types"
	cryptotypes "github.com/cosmos/cosmos-sdk/crypto/types"
	sdk "github.com/cosmos/cosmos-sdk/types"
	"github.com/cosmos/cosmos-sdk/types/tx/signing"
	txtypes "github.com/cosmos/cosmos-sdk/types/tx"
	"github.com/cosmos/cosmos-sdk/x/authz"
	banktypes "github.com/cosmos/cosmos-sdk/x/bank/types"
	govv1 "github.com/cosmos/cosmos-sdk/x/gov/types/v1"
	gogoproto "github.com/cosmos/gogoproto/proto"
	"pgregory.net/rapid"

	lptypes "github.com/elys-network/elys/x/leveragelp/types"
	ptypes "github.com/elys-network/elys/x/parameter/types"
	perptypes "github.com/elys-network/elys/x/perpetual/types"
	tiertypes "github.com/elys-network/elys/x/tier/types"
	tstypes "github.com/elys-network/elys/x/tradeshield/types"
)

// C17 at the level of whole transactions.
//
// TestC17 shows that every handler refuses a governance-only message whose authority field names somebody else,
// and that the required signer *is* that field. What binds the field to a key is the transaction pipeline: a
// message whose authority field does name the governance account (or whose owner field names the real owner) must
// not get through unless that account's signature is on the transaction. Here an attacker builds transactions that
// contain such a message – correctly filled in, the handler alone would accept it – next to up to two messages of
// its own (transfers, normal and expedited governance proposals, votes, deposits, portfolio updates), signs its own
// part properly and forges, replaces or omits the other signature, or wraps the message into an authz MsgExec.
// The transaction is executed the way baseapp executes one (message validation, the application's real ante
// handler on a branch, then the handlers on a branch): it must be refused.

type c17TxCase struct {
	Property string   `json:"property"`
	Kind     string   `json:"kind"`
	Profile  string   `json:"profile"`
	TxB64    string   `json:"tx_base64"`
	Msgs     []string `json:"msgs"`
	Forgery  string   `json:"forgery"`
	What     string   `json:"violation,omitempty"`
}

// deliverLike executes a decoded transaction on a branch of ctx the way baseapp.runTx does.
// accepted == every message handler returned success after the ante handler had let the transaction pass.
func deliverLike(w *World, ctx sdk.Context, tx sdk.Tx, bz []byte) (accepted bool, stage string, err error) {
	defer func() {
		if r := recover(); r != nil {
			accepted, stage, err = false, "panic", fmt.Errorf("panic: %v", r)
			if os.Getenv("VERIF_DEBUG_STACK") != "" {
				fmt.Fprintf(os.Stderr, "%v\n%s\n", r, debug.Stack())
			}
		}
	}()
	msgs := tx.GetMsgs()
	if len(msgs) == 0 {
		return false, "validate-basic", fmt.Errorf("no messages")
	}
	for _, m := range msgs {
		if vb, ok := m.(sdk.HasValidateBasic); ok {
			if e := vb.ValidateBasic(); e != nil {
				return false, "validate-basic", e
			}
		}
	}
	anteCtx, writeAnte := ctx.WithTxBytes(bz).CacheContext()
	newCtx, e := w.App.AnteHandler()(anteCtx, tx, false)
	if e != nil {
		return false, "ante", e
	}
	writeAnte()
	msgCtx, _ := ctx.WithGasMeter(newCtx.GasMeter()).CacheContext()
	for _, m := range msgs {
		h := w.App.MsgServiceRouter().Handler(m)
		if h == nil {
			return false, "handler", fmt.Errorf("no handler for %s", sdk.MsgTypeURL(m))
		}
		if _, e := h(msgCtx, m); e != nil {
			return false, "handler", e
		}
	}
	return true, "accepted", nil
}

type c17Signer struct {
	addr sdk.AccAddress
	key  *Account // nil: the attacker does not hold this key
}

// buildForgedTx signs for every signer whose key is known; the others get the drawn forgery.
func buildForgedTx(w *World, ctx sdk.Context, msgs []sdk.Msg, signers []c17Signer, att *Account, forgery string, junk []byte) ([]byte, sdk.Tx, error) {
	txCfg := w.App.TxConfig()
	b := txCfg.NewTxBuilder()
	if err := b.SetMsgs(msgs...); err != nil {
		return nil, nil, err
	}
	b.SetGasLimit(DefaultGas)
	b.SetFeeAmount(DefaultFee)
	mode := signing.SignMode_SIGN_MODE_DIRECT
	type slot struct {
		pk       cryptotypes.PubKey
		num, seq uint64
		signWith *Account
	}
	var slots []slot
	for _, s := range signers {
		var num, seq uint64
		if acc := w.App.AccountKeeper.GetAccount(ctx, s.addr); acc != nil {
			num, seq = acc.GetAccountNumber(), acc.GetSequence()
		}
		sl := slot{num: num, seq: seq}
		switch {
		case s.key != nil:
			sl.pk, sl.signWith = s.key.Priv.PubKey(), s.key
		case forgery == "omit":
			continue
		case forgery == "attacker-key-in-slot":
			sl.pk, sl.signWith = att.Priv.PubKey(), att
		case forgery == "no-pubkey-attacker-signature":
			sl.pk, sl.signWith = nil, att
		case forgery == "no-pubkey-junk", forgery == "attacker-pubkey-junk":
			if forgery == "attacker-pubkey-junk" {
				sl.pk = att.Priv.PubKey()
			}
		}
		slots = append(slots, sl)
	}
	sigs := make([]signing.SignatureV2, len(slots))
	for i, sl := range slots {
		sigs[i] = signing.SignatureV2{PubKey: sl.pk, Data: &signing.SingleSignatureData{SignMode: mode}, Sequence: sl.seq}
	}
	if err := b.SetSignatures(sigs...); err != nil {
		return nil, nil, err
	}
	// SIGN_MODE_DIRECT by hand (the library's adapter cannot cope with an empty public-key slot): the bytes to sign are
	// the transaction's body and auth-info bytes, the chain id and the slot's account number
	pre, err := txCfg.TxEncoder()(b.GetTx())
	if err != nil {
		return nil, nil, err
	}
	var raw txtypes.TxRaw
	if err := raw.Unmarshal(pre); err != nil {
		return nil, nil, err
	}
	for i, sl := range slots {
		sig := junk
		if sl.signWith != nil {
			doc := txtypes.SignDoc{BodyBytes: raw.BodyBytes, AuthInfoBytes: raw.AuthInfoBytes, ChainId: ChainID, AccountNumber: sl.num}
			bytesToSign, err := doc.Marshal()
			if err != nil {
				return nil, nil, err
			}
			if sig, err = sl.signWith.Priv.Sign(bytesToSign); err != nil {
				return nil, nil, err
			}
		}
		sigs[i].Data = &signing.SingleSignatureData{SignMode: mode, Signature: sig}
	}
	if err := b.SetSignatures(sigs...); err != nil {
		return nil, nil, err
	}
	bz, err := txCfg.TxEncoder()(b.GetTx())
	if err != nil {
		return nil, nil, err
	}
	tx, err := txCfg.TxDecoder()(bz)
	if err != nil {
		return nil, nil, err
	}
	return bz, tx, nil
}

func TestC17Tx(t *testing.T) {
	w, err := c17Fixture()
	if err != nil {
		t.Fatalf("harness: %v", err)
	}
	govs, _, _ := enumerateGovTypes(w)
	gov := GovAddr()
	govAcc := sdk.MustAccAddressFromBech32(gov)
	sum := newSummary()
	defer sum.emit()

	if path := os.Getenv("VERIF_REPLAY"); path != "" {
		bz, err := os.ReadFile(path)
		if err != nil {
			t.Fatalf("harness: %v", err)
		}
		var c c17TxCase
		if err := json.Unmarshal(bz, &c); err != nil {
			t.Fatalf("harness: %v", err)
		}
		raw, err := base64.StdEncoding.DecodeString(c.TxB64)
		if err != nil {
			t.Fatalf("harness: %v", err)
		}
		tx, err := w.App.TxConfig().TxDecoder()(raw)
		if err != nil {
			t.Fatalf("harness: %v", err)
		}
		if ok, _, _ := deliverLike(w, caseCtx(w), tx, raw); ok {
			t.Fatalf("VIOLATION C17 (replay): a transaction carrying a protected message without its authority's / owner's signature was accepted (%s)", c.Forgery)
		}
		return
	}

	// control: the pipeline as driven here accepts an honest transaction (otherwise every rejection below is vacuous)
	{
		ctx := caseCtx(w)
		a := w.Accounts[2]
		m := &banktypes.MsgSend{FromAddress: a.Addr.String(), ToAddress: w.Accounts[3].Addr.String(), Amount: sdk.NewCoins(sdk.NewInt64Coin(ptypes.BaseCurrency, 5))}
		bz, tx, err := buildForgedTx(w, ctx, []sdk.Msg{m}, []c17Signer{{addr: a.Addr, key: a}}, a, "", nil)
		if err != nil {
			t.Fatalf("harness: control tx: %v", err)
		}
		if ok, stage, e := deliverLike(w, ctx, tx, bz); !ok {
			t.Fatalf("harness: the honest control transaction was refused at %s: %v", stage, e)
		}
	}

	victim, victim2 := w.Accounts[0], w.Accounts[4]
	rapid.Check(t, func(rt *rapid.T) {
		ctx := caseCtx(w)
		attackers := []*Account{w.Accounts[1], w.Accounts[2], w.Bot, w.Admin}
		att := attackers[UniformDraw(rt, "attacker", len(attackers))]
		// ---- the protected message, filled in the way its handler would accept it
		var protected sdk.Msg
		var owner sdk.AccAddress
		class := "gov"
		if UniformDraw(rt, "class", 3) > 0 {
			g := govs[UniformDraw(rt, "type", len(govs))]
			protected = gogoproto.Clone(g.Proto).(sdk.Msg)
			rv := reflect.ValueOf(protected).Elem()
			fillValue(rt, w, rv, "msg", 0)
			if UniformDraw(rt, "curparams", 4) > 0 {
				setParamsField(protected, currentParams(w, ctx, g.URL))
			}
			rv.FieldByName(g.AuthField).SetString(gov)
			owner = govAcc
		} else {
			class = "owner"
			v := victim.Addr.String()
			switch UniformDraw(rt, "owner-msg", 6) {
			case 0:
				protected = &tstypes.MsgCancelSpotOrder{OwnerAddress: v, OrderId: c17Ids.Spot}
			case 1:
				protected = &perptypes.MsgClose{Creator: v, Id: c17Ids.MTP, Amount: sdkmath.NewInt(int64(1 + UniformDraw(rt, "amt", 1_000_000)))}
			case 2:
				protected = &lptypes.MsgClose{Creator: v, Id: c17Ids.LP, LpAmount: sdkmath.NewInt(int64(1 + UniformDraw(rt, "lpamt", 1_000_000)))}
			case 3:
				protected, v = &tstypes.MsgCancelPerpetualOrder{OwnerAddress: victim2.Addr.String(), OrderId: c17Ids.PerpOrder}, victim2.Addr.String()
			case 4:
				protected = &banktypes.MsgSend{FromAddress: v, ToAddress: att.Addr.String(), Amount: sdk.NewCoins(sdk.NewInt64Coin(ptypes.BaseCurrency, int64(1+UniformDraw(rt, "steal", 1_000_000))))}
			default:
				protected = &tstypes.MsgUpdateSpotOrder{OwnerAddress: v, OrderId: c17Ids.Spot, OrderPrice: tstypes.OrderPrice{BaseDenom: ptypes.ATOM, QuoteDenom: ptypes.BaseCurrency, Rate: sdkmath.LegacyNewDec(int64(1 + UniformDraw(rt, "rate", 50)))}}
			}
			owner = sdk.MustAccAddressFromBech32(v)
		}
		// ---- the attacker's own messages travelling in the same transaction
		attS := att.Addr.String()
		dep := func(n int64) sdk.Coins { return sdk.NewCoins(sdk.NewInt64Coin(ptypes.Elys, n)) }
		prop := func(expedited bool, deposit int64, inner ...sdk.Msg) sdk.Msg {
			m, err := govv1.NewMsgSubmitProposal(inner, dep(deposit), attS, "", "t", "s", expedited)
			if err != nil {
				rt.Fatalf("harness: %v", err)
			}
			return m
		}
		companion := func(label string) sdk.Msg {
			switch UniformDraw(rt, label, 11) {
			case 0:
				return &banktypes.MsgSend{FromAddress: attS, ToAddress: w.Accounts[3].Addr.String(), Amount: sdk.NewCoins(sdk.NewInt64Coin(ptypes.BaseCurrency, 7))}
			case 1:
				return prop(false, GovMinDeposit, &upgradetypes.MsgCancelUpgrade{Authority: gov})
			case 2:
				return prop(true, 2*GovMinDeposit, &upgradetypes.MsgCancelUpgrade{Authority: gov})
			case 3:
				return prop(true, 2*GovMinDeposit, &upgradetypes.MsgSoftwareUpgrade{Authority: gov, Plan: upgradetypes.Plan{Name: "v99", Height: 10_000_000, Info: "x"}})
			case 4:
				return prop(true, 1, &upgradetypes.MsgCancelUpgrade{Authority: gov}, &upgradetypes.MsgSoftwareUpgrade{Authority: gov, Plan: upgradetypes.Plan{Name: "v98", Height: 10_000_001}})
			case 5:
				return prop(false, 1, protected) // the protected message as a proposal: that is the legitimate road
			case 6:
				return govv1.NewMsgVote(att.Addr, uint64(1+UniformDraw(rt, "voteid", 3)), govv1.OptionYes, "")
			case 7:
				return govv1.NewMsgDeposit(att.Addr, uint64(1+UniformDraw(rt, "depid", 3)), dep(5))
			case 8:
				return &tiertypes.MsgSetPortfolio{Creator: attS, User: attS}
			case 9:
				return prop(true, 2*GovMinDeposit, protected) // expedited, not on the white-list
			}
			return &banktypes.MsgSend{FromAddress: attS, ToAddress: attS, Amount: sdk.NewCoins(sdk.NewInt64Coin(ptypes.Elys, 1))}
		}
		forgeries := []string{"omit", "attacker-key-in-slot", "no-pubkey-attacker-signature", "no-pubkey-junk", "attacker-pubkey-junk", "authz-exec"}
		forgery := forgeries[UniformDraw(rt, "forgery", len(forgeries))]
		var msgs []sdk.Msg
		nBefore, nAfter := UniformDraw(rt, "before", 3), UniformDraw(rt, "after", 2)
		for i := 0; i < nBefore; i++ {
			msgs = append(msgs, companion(fmt.Sprintf("cb%d", i)))
		}
		if forgery == "authz-exec" {
			// half of the time the attacker does hold an authz grant from that very account – for some *other* message type
			if UniformDraw(rt, "othergrant", 2) == 1 {
				other := []string{"/cosmos.bank.v1beta1.MsgMultiSend", "/elys.tier.MsgSetPortfolio", "/cosmos.gov.v1.MsgVote", "/elys.masterchef.MsgClaimRewards"}[UniformDraw(rt, "othergranttype", 4)]
				if other != sdk.MsgTypeURL(protected) {
					exp := ctx.BlockTime().Add(24 * time.Hour)
					if err := w.App.AuthzKeeper.SaveGrant(ctx, att.Addr, owner, authz.NewGenericAuthorization(other), &exp); err == nil {
						forgery = "authz-exec+grant-for-another-type"
					}
				}
			}
			ex := authz.NewMsgExec(att.Addr, []sdk.Msg{protected})
			msgs = append(msgs, &ex)
		} else {
			msgs = append(msgs, protected)
		}
		for i := 0; i < nAfter; i++ {
			msgs = append(msgs, companion(fmt.Sprintf("ca%d", i)))
		}
		// signer list in the order the transaction defines it (first appearance over the messages)
		var signers []c17Signer
		seen := map[string]bool{}
		for _, m := range msgs {
			ss, _, err := w.App.AppCodec().GetMsgV1Signers(m)
			if err != nil {
				rt.Skip("message without a resolvable signer")
			}
			for _, s := range ss {
				if seen[string(s)] {
					continue
				}
				seen[string(s)] = true
				c := c17Signer{addr: sdk.AccAddress(s)}
				if sdk.AccAddress(s).Equals(att.Addr) {
					c.key = att
				}
				signers = append(signers, c)
			}
		}
		if !strings.HasPrefix(forgery, "authz-exec") && !seen[string(owner)] {
			rt.Fatalf("VIOLATION C17: %s does not demand the signature of the account in its authority / owner field", sdk.MsgTypeURL(protected))
		}
		junk := rapid.SliceOfN(rapid.Byte(), 64, 64).Draw(rt, "junk")
		bz, tx, err := buildForgedTx(w, ctx, msgs, signers, att, forgery, junk)
		if err != nil {
			// the codec itself refuses to encode such a transaction: it cannot reach the chain
			sum.record("unencodable|"+forgery, false, []string{"tx/unencodable"}, nil)
			return
		}
		accepted, stage, derr := deliverLike(w, ctx, tx, bz)
		var urls []string
		for _, m := range msgs {
			urls = append(urls, sdk.MsgTypeURL(m))
		}
		if accepted {
			what := fmt.Sprintf("a transaction of %s carrying %s (%s class, authority / owner %s) was accepted without that account's signature (forgery: %s; messages %v)", att.Name, sdk.MsgTypeURL(protected), class, owner, forgery, urls)
			if p := os.Getenv("VERIF_FAILTRACE"); p != "" {
				out, _ := json.MarshalIndent(c17TxCase{Property: "C17", Kind: "c17tx-case", Profile: "c17tx", TxB64: base64.StdEncoding.EncodeToString(bz), Msgs: urls, Forgery: forgery, What: what}, "", " ")
				_ = os.WriteFile(p, out, 0o644)
			}
			rt.Fatalf("VIOLATION C17: %s", what)
		}
		if stage == "panic" && derr != nil {
			msg := derr.Error()
			if len(msg) > 70 {
				msg = msg[:70]
			}
			sum.record("", false, []string{"tx/panic: " + msg}, nil)
		}
		nt := len(msgs) > 1 || strings.HasPrefix(forgery, "authz-exec")
		sum.record(sdk.MsgTypeURL(protected)+"|"+forgery+"|"+fmt.Sprint(urls), nt, []string{"tx/refused-at-" + stage, "tx/forgery=" + forgery, "tx/class=" + class, fmt.Sprintf("tx/companions=%d", len(msgs)-1)},
			map[string]any{"protected": sdk.MsgTypeURL(protected), "forgery": forgery, "messages": urls, "refused_at": stage})
	})
}
