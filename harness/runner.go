package harness

import (
	"crypto/sha256"
	"encoding/hex"
	"encoding/json"
	"errors"
	"fmt"
	"os"
	"regexp"
	"sort"
	"strings"
	"testing"
	"time"

	sdkmath "cosmossdk.io/math"
	sdk "github.com/cosmos/cosmos-sdk/types"
	banktypes "github.com/cosmos/cosmos-sdk/x/bank/types"
	"pgregory.net/rapid"
)

// Violation is one failed oracle evaluation.
type Violation struct {
	Sig    string `json:"sig"`    // stable classification: invariant name + where/sign
	Detail string `json:"detail"` // concrete numbers
}

// TraceTx / TraceBlock / Trace: the concrete history, replayable without rapid.
type TraceTx struct {
	Signer string          `json:"signer"`
	Fee    string          `json:"fee"`
	Kind   string          `json:"kind"`
	Msg    json.RawMessage `json:"msg"`
	Code   uint32          `json:"code"`
	Log    string          `json:"log,omitempty"`
	// JoinPrev: a further message of the same transaction as the entry before it
	JoinPrev bool `json:"join_prev,omitempty"`
}

type EnvAction struct {
	Kind string            `json:"kind"`
	Args map[string]string `json:"args,omitempty"`
}

type TraceBlock struct {
	Tag   string      `json:"tag,omitempty"`
	GapNs int64       `json:"gap_ns"`
	Env   []EnvAction `json:"env,omitempty"` // applied before the block's txs
	Txs   []TraceTx   `json:"txs"`
	Hash  string      `json:"app_hash,omitempty"`
}

type Trace struct {
	Property   string       `json:"property"`
	Profile    string       `json:"profile"`
	Spec       WorldSpec    `json:"spec"`
	Blocks     []TraceBlock `json:"blocks"`
	Violations []Violation  `json:"violations,omitempty"`
}

// History is the running state of one generated case.
type History struct {
	P      *Profile
	W      *World
	Trace  Trace
	Prev   *Snapshot
	Cur    *Snapshot
	OpOK   map[string]int
	OpFail map[string]int
	Labels map[string]int
	// Donations: out-of-protocol sends the harness itself made (address -> coins)
	Donations map[string]sdk.Coins
	Known     map[string]bool // known-finding ids hit
	Excluded  map[string]int
	Ext       map[string]any               // per-profile scratch (models)
	LastPrice map[string]sdkmath.LegacyDec // last elys-source price seen per asset display
}

type Profile struct {
	ID         string
	Name       string
	Weights    map[string]int
	MinBlocks  int
	MaxBlocks  int
	MaxTxs     int
	Spec       func(t *rapid.T) WorldSpec
	Prepare    func(h *History) error              // after BuildWorld, before history
	PreBlock   func(h *History, g *G) []EnvAction  // env actions drawn before a block
	MultiMsg   bool                                // one tx in five carries 2-3 messages of the same signer (atomic)
	Filter     func(h *History, g *G, op *Op) bool // false → drop op (counted)
	Check      func(h *History, blk *BlockRecord) []Violation
	Final      func(h *History) []Violation
	NonTrivial func(h *History) bool
	Rule       string
	Gaps       []time.Duration
	// BlockFailureIsViolation: FinalizeBlock/Commit error or panic is this property's violation (C18)
	BlockFailureIsViolation bool
	VaryFees                bool                         // pay tx fees in any funded denom
	NoRealGov               bool                         // governance messages only as environment actions (never as real proposals)
	ExtraOps                func(h *History, g *G) []*Op // profile-specific txs added to every block
	FinalOps                func(h *History, g *G) []*Op // txs of a closing block (tagged "final" in the trace)
}

// sameSignerBetween: does any tx in pending[pos:last] share the signer of pending[last]?
// (moving a tx before an earlier tx of the same signer would break its sequence number)
func sameSignerBetween(pending []TxRecord, pos, last int) bool {
	for i := pos; i < last; i++ {
		if pending[i].Signer == pending[last].Signer {
			return true
		}
	}
	return false
}

var defaultGaps = []time.Duration{time.Second, 5 * time.Second, 5 * time.Second, 6 * time.Second, 5 * time.Second, time.Hour + time.Second, 24*time.Hour + time.Second, 8 * 24 * time.Hour}

func (p *Profile) gaps() []time.Duration {
	if len(p.Gaps) > 0 {
		return p.Gaps
	}
	return defaultGaps
}

func envInt(name string, def int) int {
	if v := os.Getenv(name); v != "" {
		var n int
		if _, err := fmt.Sscanf(v, "%d", &n); err == nil {
			return n
		}
	}
	return def
}

// weighted op selection with deterministic order
func (p *Profile) opNames() ([]string, []int) {
	names := sortedKeys(p.Weights)
	ws := make([]int, len(names))
	for i, n := range names {
		ws[i] = p.Weights[n]
	}
	return names, ws
}

func drawWeighted(g *G, names []string, ws []int) string {
	total := 0
	for _, w := range ws {
		total += w
	}
	x := g.Int("op", 0, total-1)
	for i, w := range ws {
		if x < w {
			return names[i]
		}
		x -= w
	}
	return names[len(names)-1]
}

func newHistory(p *Profile, spec WorldSpec) (*History, error) {
	w, err := BuildWorld(spec)
	if err != nil {
		return nil, err
	}
	h := &History{P: p, W: w, OpOK: map[string]int{}, OpFail: map[string]int{}, Labels: map[string]int{},
		Donations: map[string]sdk.Coins{}, Known: map[string]bool{}, Excluded: map[string]int{}, Ext: map[string]any{}, LastPrice: map[string]sdkmath.LegacyDec{}}
	h.Trace = Trace{Property: p.ID, Profile: p.Name, Spec: spec}
	if p.Prepare != nil {
		if err := p.Prepare(h); err != nil {
			return nil, err
		}
	}
	h.Cur = w.Snapshot()
	h.rememberPrices()
	return h, nil
}

func (h *History) rememberPrices() {
	for _, p := range h.Cur.Prices {
		if p.Source == "elys" {
			h.LastPrice[p.Asset] = p.Price
		}
	}
}

// step executes one block (already queued in w.Pending) and evaluates invariants.
func (h *History) step(gap time.Duration, env []EnvAction, kinds []string) []Violation {
	w := h.W
	blk := w.EndBlock(gap)
	tb := TraceBlock{GapNs: int64(gap), Env: env}
	for i, tx := range blk.Txs {
		kind := ""
		if i < len(kinds) {
			kind = kinds[i]
		}
		tb.Txs = append(tb.Txs, TraceTx{Signer: tx.Signer, Fee: tx.Fee, Kind: kind, Msg: json.RawMessage(tx.MsgJSON), Code: tx.Code, Log: shorten(tx.Log, 300), JoinPrev: tx.JoinPrev})
		if tx.JoinPrev {
			h.Labels["multi-msg-tx-parts"]++
			if tx.Code != 0 {
				h.Labels["multi-msg-tx-parts-rolled-back"]++
			}
		}
		if tx.Code == 0 {
			h.OpOK[kind]++
		} else {
			h.OpFail[kind]++
			if dbg := os.Getenv("VERIF_DEBUG_FAILLOG"); dbg != "" {
				if f, err := os.OpenFile(dbg, os.O_APPEND|os.O_CREATE|os.O_WRONLY, 0o644); err == nil {
					fmt.Fprintf(f, "%s\t%s\n", kind, shorten(strings.ReplaceAll(tx.Log, "\n", " "), 400))
					f.Close()
				}
			}
		}
	}
	tb.Hash = hex.EncodeToString(blk.AppHash)
	h.Trace.Blocks = append(h.Trace.Blocks, tb)
	if w.BlockErr != nil {
		if os.Getenv("VERIF_DEBUG_STACK") != "" {
			fmt.Fprintln(os.Stderr, w.BlockErrStack)
		}
		return []Violation{{Sig: "block-processing-failed", Detail: w.BlockErr.Error()}}
	}
	h.Prev = h.Cur
	h.Cur = w.Snapshot()
	h.rememberPrices()
	if pa, fa, re := proposalOutcomes(blk); pa+fa+re > 0 {
		h.Labels["gov-real-proposals-passed"] += pa
		h.Labels["gov-real-proposals-failed-in-execution"] += fa
		h.Labels["gov-real-proposals-rejected"] += re
		if pa > 0 && len(blk.Txs) > 0 {
			h.Labels["gov-real-proposal-executed-in-a-block-with-txs"]++
		}
	}
	// harness-known donations
	for i, tx := range blk.Txs {
		if tx.Code == 0 && i < len(kinds) && kinds[i] == "bank.send_to_pool" {
			if m, ok := tx.Msg.(*banktypes.MsgSend); ok {
				h.Donations[m.ToAddress] = h.Donations[m.ToAddress].Add(m.Amount...)
			}
		}
	}
	if pat := os.Getenv("VERIF_DEBUG_EVTYPE"); pat != "" {
		for _, tx := range blk.Txs {
			for _, e := range tx.Events {
				if strings.Contains(e.Type, pat) {
					fmt.Fprintf(os.Stderr, "height %d %s %s %v\n", blk.Height, tx.MsgType, e.Type, e.Attributes)
				}
			}
		}
	}
	if os.Getenv("VERIF_DEBUG_EVENTS") != "" {
		for _, e := range blk.Events {
			if e.Type == "coinbase" || e.Type == "burn" {
				fmt.Fprintf(os.Stderr, "height %d block-event %s %v\n", blk.Height, e.Type, e.Attributes)
			}
		}
		for _, tx := range blk.Txs {
			for _, e := range tx.Events {
				if e.Type == "coinbase" || e.Type == "burn" {
					fmt.Fprintf(os.Stderr, "height %d tx-event %s %s %v\n", blk.Height, tx.MsgType, e.Type, e.Attributes)
				}
			}
		}
	}
	h.computeLabels(blk, gap, kinds)
	if h.P.Check != nil {
		return h.P.Check(h, blk)
	}
	return nil
}

func shorten(s string, n int) string {
	if len(s) > n {
		return s[:n]
	}
	return s
}

// RunHistory is the rapid property body for a chain-engine profile.
func RunHistory(t *rapid.T, p *Profile) {
	if blockHung.Load() {
		// a block of an earlier case never returned; its goroutine still runs. The trace of THAT case was written
		// when it happened; nothing executed now could be trusted (or shrunk), so every further case just repeats it
		t.Fatalf("VIOLATION %s: block-processing-failed — FinalizeBlock of an earlier case of this process never returned (see the first report; its trace is the reproduction)", p.ID)
	}
	h, viol := runHistoryCore(t, p)
	h.emitStats(len(viol) > 0)
	if len(viol) > 0 {
		h.Trace.Violations = viol
		writeFailTrace(&h.Trace)
		t.Fatalf("VIOLATION %s: %s — %s", p.ID, viol[0].Sig, viol[0].Detail)
	}
}

// runHistoryCore generates and executes one history and returns it with the
// violations the profile's oracle found (nothing is reported here).
func runHistoryCore(t *rapid.T, p *Profile) (*History, []Violation) {
	spec := p.Spec(t)
	h, err := newHistory(p, spec)
	if err != nil {
		t.Fatalf("harness: world build failed: %v", err)
	}
	names, ws := p.opNames()
	scale := envInt("VERIF_BLOCKS_PCT", 100)
	maxB := p.MaxBlocks * scale / 100
	if maxB < p.MinBlocks {
		maxB = p.MinBlocks
	}
	nBlocks := p.MinBlocks + UniformDraw(t, "nblocks", maxB-p.MinBlocks+1)
	gaps := p.gaps()
	var viol []Violation
	for b := 0; b < nBlocks && len(viol) == 0; b++ {
		g := &G{T: t, H: h, W: h.W, S: h.Cur, Busy: map[string]bool{}}
		var env []EnvAction
		var preKinds []string
		if p.PreBlock != nil {
			for _, e := range p.PreBlock(h, g) {
				// one governance message in three travels as a real proposal (gov.go): submitted and voted in this
				// block, executed by the gov end-blocker of the block in which the voting period ends
				if e.Kind == "gov_msg" && !p.NoRealGov && (e.Args["deliver"] == "proposal" || g.Int("gov/real?", 0, 2) == 0) {
					var msg sdk.Msg
					if err := h.W.App.AppCodec().UnmarshalInterfaceJSON([]byte(e.Args["msg"]), &msg); err == nil {
						if err := h.W.SubmitProposal([]sdk.Msg{msg}, false); err == nil {
							preKinds = append(preKinds, "gov.proposal", "gov.proposal")
							h.Labels["gov-real-proposals-submitted"]++
							continue
						}
					}
				}
				if err := ApplyEnv(h.W, e); err != nil {
					t.Fatalf("harness: env action %v: %v", e, err)
				}
				env = append(env, e)
			}
		}
		var extra []*Op
		if p.ExtraOps != nil {
			extra = p.ExtraOps(h, g) // marks its accounts busy before the grammar's txs are drawn
		}
		ntx := g.Int("ntx", 0, p.MaxTxs)
		kinds := append([]string{}, preKinds...)
		for i := 0; i < ntx; i++ {
			name := drawWeighted(g, names, ws)
			gen := AllOps[name]
			if gen == nil {
				t.Fatalf("harness: unknown op %s", name)
			}
			op := gen(g)
			if op == nil {
				continue
			}
			if p.Filter != nil && !p.Filter(h, g, op) {
				continue
			}
			fee := op.Fee
			if fee == nil {
				fee = DefaultFee
				if p.VaryFees && g.Int("feedenom", 0, 3) == 0 {
					d := h.W.Scenario.Denoms[g.Pick("feed", len(h.W.Scenario.Denoms))]
					fee = sdk.NewCoins(sdk.NewInt64Coin(d, int64(g.Int("feeamt", 1, 5000))))
				}
			}
			msgs, ks := []sdk.Msg{op.Msg}, []string{op.Kind}
			if p.MultiMsg && g.Int("multimsg?", 0, 4) == 0 {
				// an atomic multi-message transaction: one or two further messages by the same signer
				g.Force = op.Signer
				for k, n := 0, 1+g.Int("multimsg/n", 0, 1); k < n; k++ {
					name2 := drawWeighted(g, names, ws)
					if op2 := AllOps[name2](g); op2 != nil && op2.Signer == op.Signer && (p.Filter == nil || p.Filter(h, g, op2)) {
						msgs, ks = append(msgs, op2.Msg), append(ks, op2.Kind)
					}
				}
				g.Force = nil
			}
			h.W.SubmitMultiFee(op.Signer, fee, msgs...)
			kinds = append(kinds, ks...)
		}
		if p.ExtraOps != nil {
			// profile-specific txs, interleaved at drawn positions among the grammar's txs
			for _, op := range extra {
				fee := op.Fee
				if fee == nil {
					fee = DefaultFee
				}
				if len(op.More) > 0 {
					// a scenario transaction with several messages: appended at the end of the block, not moved
					h.W.SubmitMultiFee(op.Signer, fee, append([]sdk.Msg{op.Msg}, op.More...)...)
					for range op.More {
						kinds = append(kinds, op.Kind)
					}
					kinds = append(kinds, op.Kind)
					continue
				}
				h.W.SubmitFee(op.Signer, fee, op.Msg)
				kinds = append(kinds, op.Kind)
				// move the new tx to a drawn position (sequence numbers stay valid: one signer's txs keep their relative order
				// only if the signer has a single tx in the block, which ExtraOps guarantees per position swap below)
				pos := g.Pick("extrapos", len(h.W.Pending))
				last := len(h.W.Pending) - 1
				for pos < last && h.W.Pending[pos].JoinPrev {
					pos++ // never into the middle of a multi-message transaction
				}
				if pos != last && !sameSignerBetween(h.W.Pending, pos, last) {
					tx, k := h.W.Pending[last], kinds[last]
					copy(h.W.Pending[pos+1:], h.W.Pending[pos:last])
					copy(kinds[pos+1:], kinds[pos:last])
					h.W.Pending[pos], kinds[pos] = tx, k
				}
			}
		}
		gap := gaps[g.Pick("gap", len(gaps))]
		viol = h.step(gap, env, kinds)
		if len(viol) == 1 && viol[0].Sig == "block-processing-failed" && !p.BlockFailureIsViolation {
			// a failed block is C18's (and C19's) business; other properties' histories just end here
			h.Labels["aborted-by-block-failure"]++
			viol = nil
			break
		}
		viol = h.filterKnown(viol)
	}
	if len(viol) == 0 && p.FinalOps != nil && h.W.BlockErr == nil {
		// closing phase (e.g. C13's drain): profile-generated txs in their own block(s), recorded in the
		// trace like every other block and tagged so that a replay evaluates the same final oracle
		g := &G{T: t, H: h, W: h.W, S: h.Cur, Busy: map[string]bool{}}
		var kinds []string
		for _, op := range p.FinalOps(h, g) {
			h.W.SubmitFee(op.Signer, DefaultFee, op.Msg)
			kinds = append(kinds, op.Kind)
		}
		viol = h.step(5*time.Second, nil, kinds)
		h.Trace.Blocks[len(h.Trace.Blocks)-1].Tag = "final"
		if len(viol) == 1 && viol[0].Sig == "block-processing-failed" && !p.BlockFailureIsViolation {
			viol = nil
		}
		viol = h.filterKnown(viol)
	}
	if len(viol) == 0 && p.Final != nil && h.W.BlockErr == nil {
		viol = h.filterKnown(p.Final(h))
	}
	return h, viol
}

// ---- known findings ---------------------------------------------------------

type KnownFinding struct {
	ID        string `json:"id"`
	Property  string `json:"property"`
	Status    string `json:"status"` // open | fixed
	Commit    string `json:"commit,omitempty"`
	What      string `json:"what"`
	Signature string `json:"signature"` // regexp over "sig: detail"
	Replay    string `json:"replay,omitempty"`
}

var knownFindings []KnownFinding
var knownLoaded bool

func loadKnown() []KnownFinding {
	if knownLoaded {
		return knownFindings
	}
	knownLoaded = true
	path := os.Getenv("VERIF_KNOWN")
	if path == "" {
		path = "/verif/known_findings.json"
	}
	bz, err := os.ReadFile(path)
	if err != nil {
		return nil
	}
	var doc struct {
		Findings []KnownFinding `json:"findings"`
	}
	if json.Unmarshal(bz, &doc) == nil {
		knownFindings = doc.Findings
	}
	return knownFindings
}

// filterKnown drops violations that match an *open* known finding of this property
// (recording the hit); fixed entries suppress nothing.
func (h *History) filterKnown(vs []Violation) []Violation {
	var out []Violation
	for _, v := range vs {
		matched := false
		for _, k := range loadKnown() {
			if k.Status != "open" || k.Property != h.P.ID || k.Signature == "" {
				continue
			}
			if re, err := regexp.Compile(k.Signature); err == nil && re.MatchString(v.Sig+": "+v.Detail) {
				h.Known[k.ID] = true
				matched = true
				break
			}
		}
		if !matched {
			out = append(out, v)
		}
	}
	return out
}

// ---- stats / traces ---------------------------------------------------------

type CaseStats struct {
	Property   string         `json:"property"`
	Profile    string         `json:"profile"`
	Hash       string         `json:"hash"`
	Blocks     int            `json:"blocks"`
	Txs        int            `json:"txs"`
	OpOK       map[string]int `json:"op_ok"`
	OpFail     map[string]int `json:"op_fail"`
	Labels     map[string]int `json:"labels,omitempty"`
	NonTrivial bool           `json:"nontrivial"`
	Failed     bool           `json:"failed"`
	Known      []string       `json:"known,omitempty"`
	Excluded   map[string]int `json:"excluded,omitempty"`
	Sample     any            `json:"sample,omitempty"`
}

func (h *History) traceHash() string {
	hs := sha256.New()
	for _, b := range h.Trace.Blocks {
		fmt.Fprintf(hs, "%d|", b.GapNs)
		for _, e := range b.Env {
			fmt.Fprintf(hs, "%s%v|", e.Kind, e.Args)
		}
		for _, tx := range b.Txs {
			hs.Write([]byte(tx.Signer))
			hs.Write(tx.Msg)
		}
	}
	return hex.EncodeToString(hs.Sum(nil))[:16]
}

func (h *History) emitStats(failed bool) {
	cs := CaseStats{Property: h.P.ID, Profile: h.P.Name, Hash: h.traceHash(), Blocks: len(h.Trace.Blocks),
		OpOK: h.OpOK, OpFail: h.OpFail, Labels: h.Labels, Failed: failed, Excluded: h.Excluded}
	for _, b := range h.Trace.Blocks {
		cs.Txs += len(b.Txs)
	}
	if h.P.NonTrivial != nil {
		cs.NonTrivial = h.P.NonTrivial(h)
	}
	cs.Known = sortedKeys(h.Known)
	// compact sample: sequence of op kinds with result codes
	var seq []string
	for _, b := range h.Trace.Blocks {
		var parts []string
		for _, e := range b.Env {
			parts = append(parts, "env:"+e.Kind)
		}
		for _, tx := range b.Txs {
			s := tx.Kind
			if tx.Code != 0 {
				s += "!"
			}
			parts = append(parts, s)
		}
		seq = append(seq, fmt.Sprintf("[+%s %s]", time.Duration(b.GapNs), strings.Join(parts, ",")))
	}
	cs.Sample = map[string]any{"pools": len(h.Trace.Spec.Pools), "history": seq}
	EmitStats(cs)
}

// EmitStats appends one JSON line to $VERIF_STATS (if set).
func EmitStats(v any) {
	path := os.Getenv("VERIF_STATS")
	if path == "" {
		return
	}
	bz, err := json.Marshal(v)
	if err != nil {
		return
	}
	f, err := os.OpenFile(path, os.O_APPEND|os.O_CREATE|os.O_WRONLY, 0o644)
	if err != nil {
		return
	}
	defer f.Close()
	f.Write(append(bz, '\n'))
}

func writeTraceTo(path string, tr *Trace) {
	bz, _ := json.MarshalIndent(tr, "", " ")
	_ = os.WriteFile(path, bz, 0o644)
}

func writeFailTrace(tr *Trace) {
	path := os.Getenv("VERIF_FAILTRACE")
	if path == "" {
		return
	}
	bz, _ := json.MarshalIndent(tr, "", " ")
	_ = os.WriteFile(path, bz, 0o644)
}

// ---- replay -----------------------------------------------------------------

// ReplayTrace re-executes a recorded history without rapid and returns the
// violations the profile's oracle reports.
func ReplayTrace(p *Profile, tr *Trace) ([]Violation, error) {
	_, v, err := ReplayTraceH(p, tr)
	return v, err
}

// submitTraceTxs signs and queues the transactions of a recorded block (consecutive entries marked JoinPrev are
// the further messages of one multi-message transaction) and returns the op kinds, one per entry.
func (h *History) submitTraceTxs(b TraceBlock) ([]string, error) {
	var kinds []string
	for i := 0; i < len(b.Txs); i++ {
		tx := b.Txs[i]
		acc := h.W.accountByName(tx.Signer)
		if acc == nil {
			return nil, fmt.Errorf("unknown signer %s", tx.Signer)
		}
		fee, err := sdk.ParseCoinsNormalized(tx.Fee)
		if err != nil {
			return nil, err
		}
		if tx.JoinPrev && tx.Fee == "" {
			// a part whose head was removed by the shrinker: it becomes a transaction of its own
			fee = DefaultFee
		}
		var msgs []sdk.Msg
		for j := i; j < len(b.Txs); j++ {
			if j > i && !(b.Txs[j].JoinPrev && b.Txs[j].Signer == tx.Signer) {
				break
			}
			var msg sdk.Msg
			if err := h.W.App.AppCodec().UnmarshalInterfaceJSON(b.Txs[j].Msg, &msg); err != nil {
				return nil, fmt.Errorf("decode msg: %w", err)
			}
			msgs = append(msgs, msg)
			kinds = append(kinds, b.Txs[j].Kind)
		}
		h.W.SubmitMultiFee(acc, fee, msgs...)
		i += len(msgs) - 1
	}
	return kinds, nil
}

// ReplayTraceH also returns the history (labels, known-finding hits).
func ReplayTraceH(p *Profile, tr *Trace) (*History, []Violation, error) {
	h, err := newHistory(p, tr.Spec)
	if err != nil {
		return nil, nil, err
	}
	for _, b := range tr.Blocks {
		for _, e := range b.Env {
			if err := ApplyEnv(h.W, e); err != nil {
				if errors.Is(err, ErrEnvRefused) {
					// e.g. a parameter setting that validation now rejects: the rest of the trace has no
					// meaning on this tree, and nothing observed so far violated anything
					h.Labels["replay-env-refused"]++
					return h, nil, nil
				}
				return nil, nil, err
			}
		}
		kinds, err := h.submitTraceTxs(b)
		if err != nil {
			return nil, nil, err
		}
		v := h.step(time.Duration(b.GapNs), b.Env, kinds)
		h.Trace.Blocks[len(h.Trace.Blocks)-1].Tag = b.Tag
		if len(v) > 0 {
			if len(v) == 1 && v[0].Sig == "block-processing-failed" && !p.BlockFailureIsViolation {
				return h, nil, nil
			}
			return h, h.filterKnown(v), nil
		}
	}
	if p.Final != nil {
		return h, h.filterKnown(p.Final(h)), nil
	}
	return h, nil, nil
}

func (w *World) accountByName(n string) *Account {
	for _, a := range w.AllKeyed() {
		if a.Name == n {
			return a
		}
	}
	return nil
}

func LoadTrace(path string) (*Trace, error) {
	bz, err := os.ReadFile(path)
	if err != nil {
		return nil, err
	}
	var tr Trace
	// fields added to the scenario after a trace was recorded keep their defaults
	tr.Spec = DefaultWorldSpec()
	tr.Spec.Pools, tr.Spec.GovMsgs = nil, nil
	defPrices := tr.Spec.Prices
	tr.Spec.Prices = nil // a map would be merged with the defaults: a world without some feed must stay without it
	if err := json.Unmarshal(bz, &tr); err != nil {
		return nil, err
	}
	if tr.Spec.Prices == nil {
		tr.Spec.Prices = defPrices
	}
	return &tr, nil
}

// RunProfileTest is the entry point used by every chain-engine test function.
func RunProfileTest(t *testing.T, p *Profile) {
	if tr, on := shrinkFromEnv(p); on {
		if tr == nil {
			t.Fatalf("harness: cannot load trace to shrink")
		}
		if len(tr.Violations) > 0 {
			t.Fatalf("VIOLATION %s (shrunk to %d blocks): %s — %s", p.ID, len(tr.Blocks), tr.Violations[0].Sig, tr.Violations[0].Detail)
		}
		return
	}
	if path := os.Getenv("VERIF_REPLAY"); path != "" {
		tr, err := LoadTrace(path)
		if err != nil {
			t.Fatalf("harness: load trace: %v", err)
		}
		vs, err := ReplayTrace(p, tr)
		if err != nil {
			t.Fatalf("harness: replay: %v", err)
		}
		if len(vs) > 0 {
			t.Fatalf("VIOLATION %s (replay): %s — %s", p.ID, vs[0].Sig, vs[0].Detail)
		}
		return
	}
	// replay committed finding traces first
	for _, k := range loadKnown() {
		if k.Property != p.ID || k.Replay == "" {
			continue
		}
		tr, err := LoadTrace(k.Replay)
		if err != nil {
			t.Fatalf("harness: finding trace %s: %v", k.Replay, err)
		}
		hh, vs, err := ReplayTraceH(p, tr)
		if err != nil {
			t.Fatalf("harness: replay of finding %s: %v", k.ID, err)
		}
		if hh != nil {
			for _, id := range sortedKeys(hh.Known) {
				EmitStats(map[string]any{"known_replay": id, "property": p.ID})
			}
		}
		if len(vs) > 0 {
			// open findings were already filtered out by filterKnown / compensated by the oracle:
			// whatever is left is a violation (a fixed entry suppresses nothing)
			writeFailTrace(tr)
			t.Fatalf("VIOLATION %s (replay of finding trace %s): %s — %s", p.ID, k.ID, vs[0].Sig, vs[0].Detail)
		}
	}
	rapid.Check(t, func(rt *rapid.T) { RunHistory(rt, p) })
}

func sortViolations(v []Violation) {
	sort.Slice(v, func(i, j int) bool { return v[i].Sig < v[j].Sig })
}

// FindingOpen reports whether the committed known-findings file lists id as open.
func FindingOpen(id string) bool {
	for _, k := range loadKnown() {
		if k.ID == id {
			return k.Status == "open"
		}
	}
	return false
}

func sprint(v any) string { return fmt.Sprintf("%v", v) }

// writeFailLog: plain reproduction file for keeper-level / pure checks (no chain trace).
func writeFailLog(prop, msg string, hist []string) {
	path := os.Getenv("VERIF_FAILTRACE")
	if path == "" {
		return
	}
	bz, _ := json.MarshalIndent(map[string]any{"property": prop, "violation": msg, "history": hist}, "", " ")
	_ = os.WriteFile(path, bz, 0o644)
}
