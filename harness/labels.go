package harness

import (
	"strings"
	"time"

	lptypes "github.com/elys-network/elys/x/leveragelp/types"
	mctypes "github.com/elys-network/elys/x/masterchef/types"
	perptypes "github.com/elys-network/elys/x/perpetual/types"
)

// computeLabels classifies what happened in the block (measured, for evidence and
// for the non-trivial rules). Pure function of prev/cur snapshots and the block.
func (h *History) computeLabels(blk *BlockRecord, gap time.Duration, kinds []string) {
	L := h.Labels
	prev, cur := h.Prev, h.Cur
	if gap >= 24*time.Hour {
		L["gap>=1d"]++
	}
	if gap >= time.Hour {
		L["gap>=1h"]++
	}
	if prev == nil {
		return
	}
	okKind := func(k string) bool {
		for i, tx := range blk.Txs {
			if tx.Code == 0 && i < len(kinds) && kinds[i] == k {
				return true
			}
		}
		return false
	}
	// leveragelp
	curLP := map[uint64]lptypes.Position{}
	for _, p := range cur.LPPositions {
		curLP[p.Id] = p
	}
	ownerClosed := map[uint64]bool{}
	for _, tx := range blk.Txs {
		if m, ok := tx.Msg.(*lptypes.MsgClose); ok && tx.Code == 0 {
			ownerClosed[m.Id] = true
		}
		if m, ok := tx.Msg.(*lptypes.MsgOpen); ok && tx.Code == 0 {
			for _, p := range prev.LPPositions {
				if p.Address == m.Creator && p.AmmPoolId == m.AmmPoolId {
					L["lp-consolidate"]++
					break
				}
			}
		}
		if tx.Code != 0 && strings.Contains(tx.Log, "funds will be locked") {
			L["lock-rejected"]++
		}
	}
	hasLoans := false
	for _, d := range prev.Debts {
		if d.Borrowed.IsPositive() {
			hasLoans = true
		}
	}
	if hasLoans && gap >= time.Hour {
		h.Ext["accrued-1h"] = true
	}
	for _, p := range prev.LPPositions {
		c, still := curLP[p.Id]
		if !still && !ownerClosed[p.Id] {
			L["lp-forced-close"]++
		}
		if still && c.LeveragedLpAmount.LT(p.LeveragedLpAmount) && ownerClosed[p.Id] {
			L["lp-partial-close"]++
		}
		if (!still || c.LeveragedLpAmount.LT(p.LeveragedLpAmount)) && h.Ext["accrued-1h"] == true {
			L["repay-after-accrual"]++
		}
	}
	if hasLoans && (okKind("stablestake.bond") || okKind("stablestake.unbond")) {
		L["bond-unbond-with-loans"]++
	}
	// perpetual
	long, short := false, false
	for _, m := range prev.MTPs {
		if m.Position == perptypes.Position_LONG {
			long = true
		} else {
			short = true
		}
	}
	if long && short && gap >= time.Hour {
		L["perp-both-sides-accrual"]++
	}
	curMTP := map[uint64]perptypes.MTP{}
	for _, m := range cur.MTPs {
		curMTP[m.Id] = m
	}
	perpOwnerClosed := map[uint64]bool{}
	for _, tx := range blk.Txs {
		if m, ok := tx.Msg.(*perptypes.MsgClose); ok && tx.Code == 0 {
			perpOwnerClosed[m.Id] = true
			if _, still := curMTP[m.Id]; still {
				L["perp-partial-close"]++
			}
		}
	}
	for _, m := range prev.MTPs {
		if _, still := curMTP[m.Id]; !still && !perpOwnerClosed[m.Id] {
			L["perp-forced-close"]++
		}
	}
	last := ""
	for i, tx := range blk.Txs {
		if tx.Code != 0 || i >= len(kinds) {
			continue
		}
		k := kinds[i]
		if strings.HasPrefix(k, "amm.") || strings.HasPrefix(k, "perpetual.") || strings.HasPrefix(k, "leveragelp.") {
			last = k
		}
	}
	if strings.HasPrefix(last, "perpetual.") {
		L["perp-last-writer"]++
	}
	// rewards
	mc := modAddr(mctypes.ModuleName)
	if cur.BalOf(mc, "uusdc").GT(prev.BalOf(mc, "uusdc")) {
		L["revenue-blocks"]++
	}
	if len(blk.Txs) >= 2 {
		L["multi-tx-blocks"]++
	}
}
