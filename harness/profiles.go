package harness

import (
	"pgregory.net/rapid"
)

func specDefault(t *rapid.T) WorldSpec {
	spec := DefaultWorldSpec()
	fees := []string{"0", "0.001", "0.003", "0.02"}
	for i := range spec.Pools {
		spec.Pools[i].SwapFee = fees[UniformDraw(t, "fee", len(fees))]
	}
	return spec
}

func combine(checks ...func(*History, *BlockRecord) []Violation) func(*History, *BlockRecord) []Violation {
	return func(h *History, b *BlockRecord) []Violation {
		var out []Violation
		for _, c := range checks {
			out = append(out, c(h, b)...)
		}
		return out
	}
}

func mixedWeights() map[string]int {
	return map[string]int{
		"amm.swap_in": 10, "amm.swap_out": 8, "amm.swap_in_2hop": 3, "amm.swap_out_2hop": 3, "amm.swap_by_denom": 3,
		"amm.join": 8, "amm.exit": 8, "bank.send_to_pool": 2, "bank.send": 1,
		"stablestake.bond": 6, "stablestake.unbond": 4,
		"leveragelp.open": 6, "leveragelp.close": 5, "leveragelp.update_stop_loss": 1, "leveragelp.claim_rewards": 1, "leveragelp.close_positions": 2,
		"perpetual.open": 7, "perpetual.close": 5, "perpetual.update_stop_loss": 1, "perpetual.update_take_profit": 1, "perpetual.close_positions": 2,
		"oracle.feed_price": 5, "masterchef.claim": 2,
	}
}

func okCount(h *History, kinds ...string) int {
	n := 0
	for _, k := range kinds {
		n += h.OpOK[k]
	}
	return n
}

var ProfileC01 = &Profile{
	ID: "C01", Name: "amm-mixed", Weights: mixedWeights(), MinBlocks: 5, MaxBlocks: 40, MaxTxs: 5,
	Spec: specDefault, Check: CheckC01,
	Rule: "history with >=2 writer kinds on pools (amm swap/join/exit plus perpetual or leveragelp) and >=10 successful pool-mutating txs",
	NonTrivial: func(h *History) bool {
		amm := okCount(h, "amm.swap_in", "amm.swap_out", "amm.swap_in_2hop", "amm.swap_out_2hop", "amm.swap_by_denom", "amm.join", "amm.exit")
		other := okCount(h, "perpetual.open", "perpetual.close", "leveragelp.open", "leveragelp.close")
		return amm > 0 && other > 0 && amm+other >= 10
	},
}
