package harness

import (
	"strings"
	"sync"
	"time"

	sdkmath "cosmossdk.io/math"
	dbm "github.com/cosmos/cosmos-db"
	sdk "github.com/cosmos/cosmos-sdk/types"
	"pgregory.net/rapid"

	elysapp "github.com/elys-network/elys/app"
	ammtypes "github.com/elys-network/elys/x/amm/types"
	ctypes "github.com/elys-network/elys/x/commitment/types"
	lptypes "github.com/elys-network/elys/x/leveragelp/types"
	mctypes "github.com/elys-network/elys/x/masterchef/types"
	oracletypes "github.com/elys-network/elys/x/oracle/types"
	paramtypes "github.com/elys-network/elys/x/parameter/types"
	perptypes "github.com/elys-network/elys/x/perpetual/types"
	sstypes "github.com/elys-network/elys/x/stablestake/types"
)

func specDefault(t *rapid.T) WorldSpec {
	spec := DefaultWorldSpec()
	fees := []string{"0", "0.001", "0.003", "0.02"}
	for i := range spec.Pools {
		spec.Pools[i].SwapFee = fees[UniformDraw(t, "fee", len(fees))]
	}
	return spec
}

// withSkew: in a third of the worlds the oracle pool starts far from its target weights (the traded asset's
// price moved by a large factor after the pool was created) and its rebalance treasury holds both assets, so
// that weight-recovery bonuses (swaps and single-sided joins in the improving direction) are paid from the
// first block on.
func withSkew(base func(*rapid.T) WorldSpec) func(*rapid.T) WorldSpec {
	return func(t *rapid.T) WorldSpec {
		spec := base(t)
		if UniformDraw(t, "skew", 3) == 0 {
			spec.SkewPrices = map[string]string{"ATOM": []string{"0.5", "0.9", "25", "60"}[UniformDraw(t, "skewprice", 4)]}
			spec.FundTreasury = []string{"1000000", "50000000000"}[UniformDraw(t, "skewfund", 2)]
		}
		return spec
	}
}

// withPoolPricedElys: in a third of the worlds the native token has no oracle feed (the situation on the live chain):
// its price everywhere – order triggers, reward valuation, portfolio tiers, fee conversion – is the spot price of the
// constant-product ELYS/USDC pool, which moves with every swap.
func withPoolPricedElys(base func(*rapid.T) WorldSpec) func(*rapid.T) WorldSpec {
	return func(t *rapid.T) WorldSpec {
		spec := base(t)
		if UniformDraw(t, "poolpricedelys", 3) == 0 {
			hasPool := false
			for _, p := range spec.Pools {
				if !p.UseOracle && ((p.Denoms[0] == paramtypes.Elys && p.Denoms[1] == paramtypes.BaseCurrency) || (p.Denoms[1] == paramtypes.Elys && p.Denoms[0] == paramtypes.BaseCurrency)) {
					hasPool = true
				}
			}
			if hasPool {
				delete(spec.Prices, "ELYS")
				spec.Scenario.PoolPricedElys = true
			}
		}
		return spec
	}
}

// withModestUser: in half of the worlds the last user is no whale: its portfolio sits in the Basic, Bronze, Silver or
// Gold membership tier, so its swaps, joins and perpetual trades run with that tier's fee discount.
func withModestUser(base func(*rapid.T) WorldSpec) func(*rapid.T) WorldSpec {
	return func(t *rapid.T) WorldSpec {
		spec := base(t)
		if UniformDraw(t, "modestuser", 2) == 1 {
			spec.Scenario.ModestUser = true
			spec.Scenario.ModestUSDC = []string{"5000000000", "30000000000", "100000000000", "300000000000"}[UniformDraw(t, "modestusdc", 4)]
		}
		return spec
	}
}

// withBurner: in half of the worlds the burner module is live (its epoch is one the chain really runs) and two or three of the
// funded denoms have bank metadata, so that what users send to the zero address is really burnt.
func withBurner(base func(*rapid.T) WorldSpec) func(*rapid.T) WorldSpec {
	return func(t *rapid.T) WorldSpec {
		spec := base(t)
		if UniformDraw(t, "burner", 2) == 1 {
			spec.Scenario.BurnEpoch = []string{"five_minutes", "five_minutes", "ten_days"}[UniformDraw(t, "burnepoch", 3)]
			sets := [][]string{{paramtypes.Elys}, {paramtypes.Elys, paramtypes.ATOM}, {paramtypes.Elys, paramtypes.ATOM, "uusdt"}}
			spec.Scenario.BurnDenoms = sets[UniformDraw(t, "burndenoms", len(sets))]
		}
		return spec
	}
}

func combine(checks ...func(*History, *BlockRecord) []Violation) func(*History, *BlockRecord) []Violation {
	return func(h *History, b *BlockRecord) []Violation {
		var out []Violation
		for _, c := range checks {
			out = append(out, c(h, b)...)
		}
		return out
	}
}

func mixedWeights() map[string]int {
	return map[string]int{
		"amm.swap_in": 10, "amm.swap_out": 8, "amm.swap_in_2hop": 3, "amm.swap_out_2hop": 3, "amm.swap_by_denom": 3,
		"amm.join": 8, "amm.exit": 8, "bank.send_to_pool": 2, "bank.send": 1, "amm.feed_external_liquidity": 2, "tier.set_portfolio": 2, "amm.create_pool": 1,
		"stablestake.bond": 6, "stablestake.unbond": 4,
		"leveragelp.open": 6, "leveragelp.close": 5, "leveragelp.update_stop_loss": 1, "leveragelp.claim_rewards": 1, "leveragelp.close_positions": 2,
		"perpetual.open": 7, "perpetual.close": 5, "perpetual.update_stop_loss": 1, "perpetual.update_take_profit": 1, "perpetual.close_positions": 2,
		"oracle.feed_price": 5, "masterchef.claim": 2,
	}
}

func okCount(h *History, kinds ...string) int {
	n := 0
	for _, k := range kinds {
		n += h.OpOK[k]
	}
	return n
}

var ProfileC01 = &Profile{
	MultiMsg: true,
	ID:       "C01", Name: "amm-mixed", Weights: mixedWeights(), MinBlocks: 5, MaxBlocks: 40, MaxTxs: 5,
	Spec: withPoolPricedElys(withModestUser(withSkew(specDefault))), Check: CheckC01, PreBlock: govModules("amm", "perpetual", "leveragelp"),
	Rule: "history with >=2 writer kinds on pools (amm swap/join/exit plus perpetual or leveragelp) and >=10 successful pool-mutating txs",
	NonTrivial: func(h *History) bool {
		amm := okCount(h, "amm.swap_in", "amm.swap_out", "amm.swap_in_2hop", "amm.swap_out_2hop", "amm.swap_by_denom", "amm.join", "amm.exit")
		other := okCount(h, "perpetual.open", "perpetual.close", "leveragelp.open", "leveragelp.close")
		return amm > 0 && other > 0 && amm+other >= 10
	},
}

func withWeights(base map[string]int, over map[string]int) map[string]int {
	out := map[string]int{}
	for k, v := range base {
		out[k] = v
	}
	for k, v := range over {
		if v == 0 {
			delete(out, k)
		} else {
			out[k] = v
		}
	}
	return out
}

var ProfileC02 = &Profile{
	MultiMsg: true,
	ID:       "C02", Name: "shares", MinBlocks: 5, MaxBlocks: 40, MaxTxs: 5, Spec: withPoolPricedElys(withModestUser(specDefault)), Check: CheckC02, PreBlock: govModules("amm", "leveragelp"),
	Weights: withWeights(mixedWeights(), map[string]int{"amm.join": 14, "amm.exit": 14, "leveragelp.open": 10, "leveragelp.close": 8, "leveragelp.close_positions": 3, "perpetual.open": 2, "perpetual.close": 2,
		// the commitment module's own messages act on the same ledger entries (they must refuse pool shares)
		"commitment.unstake": 4, "commitment.uncommit": 3, "commitment.stake": 1, "commitment.commit_claimed": 1}),
	Rule:    "history with >=1 join and >=1 exit and >=1 leveragelp open or close (all successful)",
	NonTrivial: func(h *History) bool {
		return okCount(h, "amm.join") > 0 && okCount(h, "amm.exit") > 0 && okCount(h, "leveragelp.open", "leveragelp.close") > 0
	},
}

// c05ExtraOps: right after a leveraged position was force-closed (its shares left the pool through the liquidation
// path), a liquidity provider exits with a single asset – the first thing that happens to the pool afterwards.
func c05ExtraOps(h *History, g *G) []*Op {
	if h.Prev == nil {
		return nil
	}
	s := g.S
	forcedPools := map[uint64]bool{}
	last := h.W.LastBlock()
	for _, p := range h.Prev.LPPositions {
		gone := true
		for _, q := range s.LPPositions {
			if q.Id == p.Id && q.LeveragedLpAmount.Equal(p.LeveragedLpAmount) {
				gone = false
			}
		}
		if !gone {
			continue
		}
		byOwner := false
		if last != nil {
			for _, tx := range last.Txs {
				if m, ok := tx.Msg.(*lptypes.MsgClose); ok && tx.Code == 0 && m.Id == p.Id {
					byOwner = true
				}
			}
		}
		if !byOwner {
			forcedPools[p.AmmPoolId] = true
		}
	}
	var ops []*Op
	for _, id := range []uint64{1, 2, 3} {
		if !forcedPools[id] {
			continue
		}
		pool := s.Pool(id)
		if pool == nil {
			continue
		}
		d := ammtypes.GetPoolShareDenom(id)
		for _, a := range h.W.AllKeyed() {
			have := s.CommittedOf(a.Addr.String(), d)
			if !have.IsPositive() || g.Busy[a.Addr.String()] {
				continue
			}
			g.Busy[a.Addr.String()] = true
			h.Labels["c05-exit-right-after-forced-close"]++
			out := pool.PoolAssets[g.Pick("c05/exitdenom", len(pool.PoolAssets))].Token.Denom
			shares := maxInt(have.MulRaw(int64(g.Int("c05/exitpct", 1, 60))).QuoRaw(100), sdkmath.OneInt())
			ops = append(ops, &Op{Signer: a, Kind: "c05.single_exit_after_forced_close", Msg: &ammtypes.MsgExitPool{Sender: a.Addr.String(), PoolId: id, MinAmountsOut: sdk.Coins{}, ShareAmountIn: shares, TokenOutDenom: out}})
			break
		}
	}
	return ops
}

// chain-level part of C05: join/exit dominated histories, swaps and price moves only now and then
var ProfileC05 = &Profile{
	MultiMsg: true,
	ID:       "C05", Name: "lp-value", MinBlocks: 6, MaxBlocks: 40, MaxTxs: 4, Spec: withSkew(specLending), Check: CheckC05Chain, ExtraOps: c05ExtraOps,
	Weights: map[string]int{"amm.join": 16, "amm.exit": 18, "leveragelp.open": 8, "leveragelp.close": 4, "leveragelp.close_positions": 3, "amm.swap_in": 3, "amm.swap_out": 2,
		"oracle.feed_price": 4, "perpetual.open": 1, "perpetual.close": 2, "stablestake.bond": 2, "bank.send": 1},
	Rule: "history with >=3 judged pool-blocks (only joins/exits, unchanged prices, no perpetual exposure) of which >=1 after an exit, and >=1 successful single-denom exit",
	NonTrivial: func(h *History) bool {
		return h.Labels["c05-judged-pool-blocks"] >= 3 && h.Labels["c05-judged-after-exit"] >= 1 && okCount(h, "amm.exit") > 0
	},
}

// c03Gov: governance changes a pool's own parameters while it is being traded: the pricing mode (oracle-priced <->
// constant-product) or the swap fee. Always as a real proposal, i.e. executed by the gov end-blocker between the block's
// transactions and the execution of its queued swaps.
func c03Gov(h *History, g *G) []EnvAction {
	if g.Int("c03gov?", 0, 4) != 0 || len(h.Cur.Pools) == 0 {
		return nil
	}
	p := h.Cur.Pools[g.Pick("c03gov/pool", len(h.Cur.Pools))]
	pp := p.PoolParams
	if g.Int("c03gov/what", 0, 3) > 0 {
		pp.UseOracle = !pp.UseOracle
	} else {
		pp.SwapFee = sdkmath.LegacyMustNewDecFromStr([]string{"0", "0.001", "0.003", "0.02"}[g.Pick("c03gov/fee", 4)])
	}
	msg := &ammtypes.MsgUpdatePoolParams{Authority: GovAddr(), PoolId: p.PoolId, PoolParams: pp}
	hd := h.W.App.MsgServiceRouter().Handler(msg)
	if hd == nil {
		return nil
	}
	cctx, _ := h.W.SetupCtx().CacheContext()
	if err := safeCall(func() error { _, e := hd(cctx, msg); return e }); err != nil {
		h.Labels["c03-gov-refused"]++
		return nil
	}
	h.Labels["c03-gov-pool-params-proposals"]++
	h.Ext["c03-params-proposal"] = [2]uint64{p.PoolId, uint64(len(h.Trace.Blocks) + 3)} // traffic on that pool until it has been executed
	e := h.W.GovEnv(msg)
	e.Args["deliver"] = "proposal"
	return []EnvAction{e}
}

// c03ExtraOps: while a proposal on a pool's parameters is waiting for its execution, the pool keeps being used: in each
// of the next blocks somebody joins it with a small amount, somebody else sends an exact-in swap through it, and the
// feeder reports deep external markets for its assets – so that the block in which the gov end-blocker applies the
// change holds a join before it and a queued swap after it.
func c03ExtraOps(h *History, g *G) []*Op {
	pr, ok := h.Ext["c03-params-proposal"].([2]uint64)
	if !ok || uint64(len(h.Trace.Blocks)) > pr[1] || g.Int("c03/traffic?", 0, 3) == 0 {
		return nil
	}
	pool := g.S.Pool(pr[0])
	if pool == nil || len(pool.PoolAssets) != 2 {
		return nil
	}
	var ops []*Op
	free := func() *Account {
		u := g.User()
		if g.Busy[u.Addr.String()] {
			return nil
		}
		g.Busy[u.Addr.String()] = true
		return u
	}
	if j := free(); j != nil {
		a := pool.PoolAssets[g.Pick("c03/joinasset", 2)].Token
		amt := maxInt(a.Amount.QuoRaw(int64(g.Int("c03/joinfrac", 200, 100000))), sdkmath.OneInt())
		ops = append(ops, &Op{Signer: j, Kind: "c03.join_during_proposal", Msg: &ammtypes.MsgJoinPool{Sender: j.Addr.String(), PoolId: pool.PoolId,
			MaxAmountsIn: sdk.NewCoins(sdk.NewCoin(a.Denom, amt)), ShareAmountOut: sdkmath.OneInt()}})
	}
	if t := free(); t != nil {
		i := g.Pick("c03/swapdir", 2)
		in, out := pool.PoolAssets[i].Token, pool.PoolAssets[1-i].Token
		amt := maxInt(in.Amount.MulRaw(int64(g.Int("c03/swappct", 1, 40))).QuoRaw(100), sdkmath.OneInt())
		ops = append(ops, &Op{Signer: t, Kind: "c03.swap_during_proposal", Msg: &ammtypes.MsgSwapExactAmountIn{Sender: t.Addr.String(),
			Routes: []ammtypes.SwapAmountInRoute{{PoolId: pool.PoolId, TokenOutDenom: out.Denom}}, TokenIn: sdk.NewCoin(in.Denom, amt), TokenOutMinAmount: sdkmath.OneInt(), Recipient: t.Addr.String()}})
	}
	if f := h.W.Feeder; !g.Busy[f.Addr.String()] && g.Bool("c03/extliq") {
		var info []ammtypes.AssetAmountDepth
		for _, a := range pool.PoolAssets {
			info = append(info, ammtypes.AssetAmountDepth{Asset: displayOf(a.Token.Denom), Amount: a.Token.Amount.ToLegacyDec().MulInt64(int64(g.Int("c03/extmult", 2, 50))), Depth: sdkmath.LegacyMustNewDecFromStr("0.02")})
		}
		ops = append(ops, &Op{Signer: f, Kind: "c03.external_liquidity", Msg: &ammtypes.MsgFeedMultipleExternalLiquidity{Sender: f.Addr.String(),
			Liquidity: []ammtypes.ExternalLiquidity{{PoolId: pool.PoolId, AmountDepthInfo: info}}}})
	}
	h.Labels["c03-traffic-during-a-parameter-proposal"]++
	return ops
}

// chain-level part of C03: swap-dominated histories (several swaps per block against the same pools, both
// directions and forms), few price moves, almost no perpetual exposure
var ProfileC03 = &Profile{
	MultiMsg: true,
	ID:       "C03", Name: "swap-value", MinBlocks: 6, MaxBlocks: 40, MaxTxs: 6, Spec: withModestUser(withSkew(specDefault)), Check: CheckC03Chain, PreBlock: c03Gov, ExtraOps: c03ExtraOps,
	Weights: map[string]int{"amm.swap_in": 14, "amm.swap_out": 14, "amm.swap_in_2hop": 4, "amm.swap_out_2hop": 4, "amm.swap_by_denom": 3, "amm.join": 4, "amm.exit": 4,
		"oracle.feed_price": 2, "perpetual.open": 1, "perpetual.close": 2, "leveragelp.open": 1, "bank.send_to_pool": 1, "amm.feed_external_liquidity": 3, "tier.set_portfolio": 3},
	Rule: "history with >=3 judged pool-blocks (only swaps/joins/exits, unchanged prices, no perpetual exposure) and >=1 block with >=2 successful swaps",
	NonTrivial: func(h *History) bool {
		return h.Labels["c03-judged-pool-blocks"] >= 3 && h.Labels["c03-blocks-with>=2-swaps"] >= 1
	},
}

// govModules: now and then governance executes a parameter proposal of one of the named modules (boundary
// values accepted by every validation layer, possibly written from an earlier snapshot) while positions, orders
// and requests opened under the old parameters are still there. Accounting identities do not depend on parameters.
func govModules(mods ...string) func(h *History, g *G) []EnvAction {
	return func(h *History, g *G) []EnvAction {
		for _, m := range mods {
			recordParamSnapshot(h, m)
		}
		if g.Int("gov?", 0, 7) != 0 {
			return nil
		}
		if e := GenParamChangeFor(h, g, mods[g.Pick("gov/module", len(mods))]); e != nil {
			return []EnvAction{*e}
		}
		return nil
	}
}

// vaultGov: now and then governance executes a stablestake parameter proposal – written from the parameters as
// they were at some earlier block of the history (see GenParamChangeFor).
func vaultGov(h *History, g *G) []EnvAction {
	if g.Int("vaultgov?", 0, 5) != 0 {
		// still record the snapshot of this block so that later proposals can be stale
		recordParamSnapshot(h, "stablestake")
		return nil
	}
	if e := GenParamChangeFor(h, g, "stablestake"); e != nil {
		return []EnvAction{*e}
	}
	return nil
}

var ProfileC06 = &Profile{
	MultiMsg: true,
	ID:       "C06", Name: "lending", MinBlocks: 5, MaxBlocks: 40, MaxTxs: 5, Spec: specLending, Check: CheckC06, PreBlock: vaultGov,
	Weights: map[string]int{"stablestake.bond": 12, "stablestake.unbond": 8, "leveragelp.open": 14, "leveragelp.close": 10, "leveragelp.close_positions": 4,
		"leveragelp.update_stop_loss": 2, "leveragelp.claim_rewards": 1, "oracle.feed_price": 8, "amm.swap_in": 4, "amm.join": 2, "amm.exit": 2, "masterchef.claim": 1,
		// other modules' money flows around the vault: perpetual interest and funding revenue (collected and split by
		// masterchef at the end of every block), plain transfers
		"perpetual.open": 5, "perpetual.close": 3, "perpetual.close_positions": 1, "bank.send": 1},
	Gaps: []time.Duration{time.Second, 5 * time.Second, 6 * time.Second, time.Hour + time.Second, 3 * time.Hour, 24*time.Hour + time.Second, 8 * 24 * time.Hour},
	Rule: "history with >=1 leveragelp close (repay) after >=1h of accrual and >=1 bond/unbond while a loan is outstanding",
	NonTrivial: func(h *History) bool {
		return h.Labels["repay-after-accrual"] > 0 && h.Labels["bond-unbond-with-loans"] > 0
	},
}

var ProfileC08 = &Profile{
	MultiMsg: true,
	ID:       "C08", Name: "leveragelp", MinBlocks: 5, MaxBlocks: 40, MaxTxs: 5, Spec: specLending, Check: CheckC08, PreBlock: govModules("leveragelp", "stablestake"),
	Weights: map[string]int{"stablestake.bond": 8, "stablestake.unbond": 4, "leveragelp.open": 16, "leveragelp.close": 12, "leveragelp.close_positions": 6,
		"leveragelp.update_stop_loss": 4, "leveragelp.claim_rewards": 2, "oracle.feed_price": 10, "amm.swap_in": 4, "amm.swap_out": 2, "amm.join": 2, "amm.exit": 2},
	Rule: "history with >=1 forced close (position gone without an owner close tx) and >=1 partial close and >=1 consolidating open",
	NonTrivial: func(h *History) bool {
		return h.Labels["lp-forced-close"] > 0 && h.Labels["lp-partial-close"] > 0 && h.Labels["lp-consolidate"] > 0
	},
}

// c09ExtraOps: "the pool always holds at least the custody it has recorded" under pressure. When positions hold a
// sizeable part of a reserve in custody, two users ask – in the same block – for swaps that each take a little more than
// half of what the pool holds beyond that custody. Each is acceptable alone; executed one after the other at the end of
// the block the second would dig into the custody and has to fail as a whole.
func c09ExtraOps(h *History, g *G) []*Op {
	if g.Int("c09/squeeze?", 0, 3) != 0 {
		return nil
	}
	s := g.S
	for _, pp := range s.PerpPools {
		amm := s.Pool(pp.AmmPoolId)
		if amm == nil || len(amm.PoolAssets) != 2 {
			continue
		}
		for i, a := range amm.PoolAssets {
			custody := sdkmath.ZeroInt()
			for _, side := range [][]perptypes.PoolAsset{pp.PoolAssetsLong, pp.PoolAssetsShort} {
				for _, pa := range side {
					if pa.AssetDenom == a.Token.Denom {
						custody = custody.Add(pa.Custody)
					}
				}
			}
			free := a.Token.Amount.Sub(custody)
			if !custody.IsPositive() || !free.IsPositive() || custody.MulRaw(200).LT(a.Token.Amount) {
				continue
			}
			h.Labels["c09-squeeze-scenarios"]++
			other := amm.PoolAssets[1-i].Token
			var ops []*Op
			pct := int64(g.Int("c09/squeezepct", 51, 60))
			for k := 0; k < 2; k++ {
				u := g.User()
				if g.Busy[u.Addr.String()] {
					return ops
				}
				g.Busy[u.Addr.String()] = true
				// the first takes 51-60 % of the free part; the second what is then left of it plus a slice of the custody
				want := free.MulRaw(pct).QuoRaw(100)
				if k == 1 {
					want = free.Sub(want).Add(custody.MulRaw(int64(g.Int("c09/squeezedig", 5, 90))).QuoRaw(100))
				}
				ops = append(ops, &Op{Signer: u, Kind: "c09.squeeze_swap", Msg: &ammtypes.MsgSwapExactAmountOut{
					Sender: u.Addr.String(), Routes: []ammtypes.SwapAmountOutRoute{{PoolId: amm.PoolId, TokenInDenom: other.Denom}},
					TokenOut: sdk.NewCoin(a.Token.Denom, want), TokenInMaxAmount: other.Amount.MulRaw(1000), Recipient: u.Addr.String()}})
			}
			return ops
		}
	}
	return nil
}

var ProfileC09 = &Profile{
	MultiMsg: true,
	ID:       "C09", Name: "perpetual", MinBlocks: 5, MaxBlocks: 40, MaxTxs: 5, Spec: specDefault, Check: combine(CheckC09), PreBlock: govModules("perpetual", "amm"), ExtraOps: c09ExtraOps,
	Weights: map[string]int{"perpetual.open": 18, "perpetual.close": 10, "perpetual.close_positions": 6, "perpetual.update_stop_loss": 3, "perpetual.update_take_profit": 3,
		"oracle.feed_price": 10, "amm.swap_in": 5, "amm.swap_out": 3, "amm.join": 3, "amm.exit": 3, "stablestake.bond": 1,
		// positions also come into being and end through tradeshield's limit orders, executed by a third party
		"tradeshield.create_perp_open": 5, "tradeshield.create_perp_close": 2, "tradeshield.update_perp": 1, "tradeshield.execute": 6},
	Rule: "history in which long and short MTPs coexisted across >=1 block with a time gap >=1h (interest/funding settlement) and >=1 partial close succeeded",
	NonTrivial: func(h *History) bool {
		return h.Labels["perp-both-sides-accrual"] > 0 && h.Labels["perp-partial-close"] > 0
	},
}

var ProfileC11 = &Profile{
	MultiMsg: true,
	ID:       "C11", Name: "accounted", MinBlocks: 5, MaxBlocks: 40, MaxTxs: 5, Spec: specDefault, Check: CheckC11, PreBlock: govModules("perpetual", "amm"),
	Weights: withWeights(ProfileC09.Weights, map[string]int{"amm.swap_in": 10, "amm.swap_out": 6, "amm.join": 5, "amm.exit": 5}),
	Rule:    "history with amm writers and perpetual writers on the same pool, including >=1 block whose last pool writer was a perpetual handler",
	NonTrivial: func(h *History) bool {
		return h.Labels["perp-last-writer"] > 0 && okCount(h, "amm.swap_in", "amm.swap_out", "amm.join", "amm.exit") > 0
	},
}

// c12ExtraOps: the lock-up clause for leveraged positions. When a keyed owner has a position whose
// committed shares are still under the one-hour lock, now and then the price of the pool's traded asset
// crashes (the position turns unhealthy) and the owner tries to close it himself in the same block –
// before the sweep of the next block can liquidate it.
func c12ExtraOps(h *History, g *G) []*Op {
	s := g.S
	horizon := uint64(s.Time.Unix()) + 3600
	var cands []lptypes.Position
	for _, pos := range s.LPPositions {
		if h.W.ByAddr[pos.Address] == nil {
			continue
		}
		pa := pos.GetPositionAddress().String()
		for _, c := range s.Commitments {
			if c.Creator != pa {
				continue
			}
			for _, ct := range c.CommittedTokens {
				for _, l := range ct.Lockups {
					if l.UnlockTimestamp > uint64(s.Time.Unix())+10 && l.UnlockTimestamp <= horizon+10 {
						cands = append(cands, pos)
					}
				}
			}
		}
	}
	if len(cands) == 0 || g.Int("c12/crash?", 0, 2) != 0 {
		return nil
	}
	pos := cands[g.Pick("c12/pos", len(cands))]
	owner := h.W.ByAddr[pos.Address]
	pool := s.Pool(pos.AmmPoolId)
	if pool == nil || g.Busy[owner.Addr.String()] {
		return nil
	}
	var ops []*Op
	for _, a := range pool.PoolAssets {
		if a.Token.Denom == paramtypes.BaseCurrency {
			continue
		}
		cur := g.priceOf(a.Token.Denom)
		if !cur.IsPositive() {
			continue
		}
		np := cur.MulInt64(int64(100 - g.Int("c12/crash", 25, 70))).QuoInt64(100)
		f := h.W.Feeder
		ops = append(ops, &Op{Signer: f, Kind: "c12.crash_feed", Msg: &oracletypes.MsgFeedPrice{Provider: f.Addr.String(),
			FeedPrice: oracletypes.FeedPrice{Asset: displayOf(a.Token.Denom), Price: np, Source: "elys"}}})
	}
	g.Busy[owner.Addr.String()] = true
	h.Labels["c12-crash-then-owner-close"]++
	ops = append(ops, &Op{Signer: owner, Kind: "c12.owner_close_under_lock", Msg: &lptypes.MsgClose{Creator: owner.Addr.String(), Id: pos.Id, LpAmount: pos.LeveragedLpAmount}})
	return ops
}

var ProfileC12 = &Profile{
	MultiMsg: true,
	ID:       "C12", Name: "commitments", MinBlocks: 5, MaxBlocks: 40, MaxTxs: 5, Spec: withPoolPricedElys(specLending), Check: CheckC12, ExtraOps: c12ExtraOps,
	Weights: map[string]int{"amm.join": 12, "amm.exit": 12, "stablestake.bond": 6, "stablestake.unbond": 5, "leveragelp.open": 6, "leveragelp.close": 5, "leveragelp.close_positions": 5, "amm.create_pool": 2,
		"masterchef.claim": 10, "commitment.commit_claimed": 8, "commitment.uncommit": 8, "commitment.stake": 5, "commitment.unstake": 4, "estaking.withdraw_rewards": 2, "commitment.vest_liquid": 3, "commitment.vest": 5, "commitment.cancel_vest": 3, "commitment.claim_vesting": 3, "commitment.vest_now": 1,
		"oracle.feed_price": 4, "amm.swap_in": 6},
	Gaps: []time.Duration{time.Second, 5 * time.Second, 6 * time.Second, 10 * time.Minute, 59 * time.Minute, time.Hour + time.Second, 24*time.Hour + time.Second},
	Rule: "history with >=1 successful uncommit-type op (exit/unbond/uncommit/close) after a commit of the same denom and >=1 rejected withdrawal inside the one-hour lock window",
	NonTrivial: func(h *History) bool {
		return okCount(h, "amm.exit", "stablestake.unbond", "commitment.uncommit", "leveragelp.close") > 0 && h.Labels["lock-rejected"] > 0
	},
}

// c13Gov: governance acts between blocks – it switches a pool's Eden rewards off or on again and
// changes pool multipliers (both are what the masterchef's gov messages exist for).
func c13Gov(h *History, g *G) []EnvAction {
	if g.Int("gov?", 0, 7) != 0 || len(h.Cur.MCPoolInfos) == 0 {
		return nil
	}
	pi := h.Cur.MCPoolInfos[g.Pick("gov/pool", len(h.Cur.MCPoolInfos))]
	if g.Int("gov/kind", 0, 2) == 0 {
		mult := []string{"0", "0.5", "1", "3"}[g.Pick("gov/mult", 4)]
		h.Labels["gov-multiplier"]++
		return []EnvAction{h.W.GovEnv(&mctypes.MsgUpdatePoolMultipliers{Authority: GovAddr(), PoolMultipliers: []mctypes.PoolMultiplier{{PoolId: pi.PoolId, Multiplier: sdkmath.LegacyMustNewDecFromStr(mult)}}})}
	}
	if g.Bool("gov/denom?") {
		// the list of supported external reward denoms gates NEW incentives; governance takes a denom off it (and puts
		// it back later) while incentives in that denom are running
		d := []string{"uusdt", paramtypes.ATOM}[g.Pick("gov/denom", 2)]
		listed := false
		for _, sd := range h.Cur.MCParams.SupportedRewardDenoms {
			if sd != nil && sd.Denom == d {
				listed = true
			}
		}
		h.Labels["gov-reward-denom-listing"]++
		return []EnvAction{h.W.GovEnv(&mctypes.MsgAddExternalRewardDenom{Authority: GovAddr(), RewardDenom: d, MinAmount: sdkmath.NewInt(1), Supported: !listed})}
	}
	h.Labels["gov-eden-toggle"]++
	return []EnvAction{h.W.GovEnv(&mctypes.MsgTogglePoolEdenRewards{Authority: GovAddr(), PoolId: pi.PoolId, Enable: !pi.EnableEdenRewards})}
}

var ProfileC13 = &Profile{
	MultiMsg: true,
	VaryFees: true, // "gas fees in any denom"
	ID:       "C13", Name: "rewards", MinBlocks: 8, MaxBlocks: 40, MaxTxs: 5, Spec: withPoolPricedElys(specDefault), Check: CheckC13, FinalOps: c13Drain, Final: c13Final, PreBlock: c13Gov,
	Weights: map[string]int{"amm.swap_in": 14, "amm.swap_out": 8, "amm.swap_in_2hop": 3, "amm.join": 8, "amm.exit": 6, "stablestake.bond": 5, "stablestake.unbond": 3,
		"perpetual.open": 6, "perpetual.close": 4, "leveragelp.open": 4, "leveragelp.close": 3, "leveragelp.claim_rewards": 2,
		"masterchef.claim": 8, "masterchef.add_external_incentive": 5, "oracle.feed_price": 3},
	Rule: "history with >=2 reward holders, revenue collected in >=3 blocks and >=1 successful claim",
	NonTrivial: func(h *History) bool {
		return h.Labels["revenue-blocks"] >= 3 && okCount(h, "masterchef.claim") > 0 && okCount(h, "amm.join", "stablestake.bond") > 0 && h.Labels["c13-drain-claims"] > 0
	},
}

func allWeights() map[string]int {
	w := map[string]int{}
	for k := range AllOps {
		w[k] = 3
	}
	for k, v := range mixedWeights() {
		w[k] = v
	}
	return w
}

var ProfileC15 = &Profile{
	MultiMsg: true,
	ID:       "C15", Name: "everything", MinBlocks: 8, MaxBlocks: 50, MaxTxs: 6, Spec: withPoolPricedElys(withModestUser(withBurner(specDefault))), Check: CheckC15, Weights: withWeights(allWeights(), map[string]int{"bank.send_to_burn": 5}),
	Rule: "history with >=30 successful txs from >=5 modules and >=1 block gap >= 1 day (epoch boundary)",
	NonTrivial: func(h *History) bool {
		mods := map[string]bool{}
		n := 0
		for k, v := range h.OpOK {
			if v > 0 {
				mods[strings.SplitN(k, ".", 2)[0]] = true
				n += v
			}
		}
		return n >= 30 && len(mods) >= 5 && h.Labels["gap>=1d"] > 0
	},
}

// ---------------------------------------------------------------- C18 fault profile

var (
	codecOnce sync.Once
	codecApp  *elysapp.ElysApp
)

// sharedCodec: an app instance used only for its interface registry / codec.
func sharedCodec() *elysapp.ElysApp {
	codecOnce.Do(func() { codecApp = newApp(dbm.NewMemDB(), workDir()) })
	return codecApp
}

func govJSON(msg sdk.Msg) string {
	bz, err := sharedCodec().AppCodec().MarshalInterfaceJSON(msg)
	if err != nil {
		panic(err)
	}
	return string(bz)
}

func dec(s string) sdkmath.LegacyDec { return sdkmath.LegacyMustNewDecFromStr(s) }

// specFaulty: worlds whose prices expire quickly and whose parameters sit at the edges of
// what each module's own validation admits.
func specFaulty(t *rapid.T) WorldSpec {
	spec := specDefault(t)
	lifes := []uint64{1, 2, 5, 1000000}
	spec.Scenario.OracleLifeBlocks = lifes[UniformDraw(t, "life", len(lifes))]
	exp := []uint64{60, 3600, 86400 * 365}
	spec.Scenario.OracleExpirySecs = exp[UniformDraw(t, "expiry", len(exp))]
	// lopsided / tiny pools
	switch UniformDraw(t, "poolshape", 7) {
	case 1:
		spec.Pools[1].Amounts = [2]string{"1000000", "3000000"}
	case 2:
		spec.Pools[1].Amounts = [2]string{"300000000000000", "900000"}
	case 3:
		spec.Pools = append(spec.Pools, PoolSpec{UseOracle: true, Denoms: [2]string{"uusdt", "uusdc"}, Amounts: [2]string{"5000000", "5000000"}, Weights: [2]int64{50, 50}, SwapFee: "0.001"})
	case 4, 5:
		// a second constant-product pool whose assets can lose their feeds independently of the first one's
		spec.Pools = append(spec.Pools, PoolSpec{UseOracle: false, Denoms: [2]string{"uusdt", "uusdc"}, Amounts: [2]string{"50000000000", "50000000000"}, Weights: [2]int64{50, 50}, SwapFee: "0.002"})
	case 6:
		spec.Pools = append(spec.Pools, PoolSpec{UseOracle: false, Denoms: [2]string{"uatom", "uusdc"}, Amounts: [2]string{"10000000000", "50000000000"}, Weights: [2]int64{80, 20}, SwapFee: "0.003"})
	}
	// masterchef reward portions incl. 0 and 1
	mp := mctypes.DefaultParams()
	switch UniformDraw(t, "portions", 5) {
	case 1:
		mp.RewardPortionForLps, mp.RewardPortionForStakers = dec("0"), dec("0")
	case 2:
		mp.RewardPortionForLps, mp.RewardPortionForStakers = dec("1"), dec("0")
	case 3:
		mp.RewardPortionForLps, mp.RewardPortionForStakers = dec("0"), dec("1")
	case 4:
		mp.RewardPortionForLps, mp.RewardPortionForStakers = dec("0.333333333333333333"), dec("0.666666666666666667")
	}
	if err := mp.Validate(); err == nil && UniformDraw(t, "setmc", 2) == 1 {
		spec.GovMsgs = append(spec.GovMsgs, govJSON(&mctypes.MsgUpdateParams{Authority: GovAddr(), Params: mp}))
	}
	// blocks per year small / huge
	switch UniformDraw(t, "bpy", 4) {
	case 1:
		spec.GovMsgs = append(spec.GovMsgs, govJSON(&paramtypes.MsgUpdateTotalBlocksPerYear{Creator: GovAddr(), TotalBlocksPerYear: 1}))
	case 2:
		spec.GovMsgs = append(spec.GovMsgs, govJSON(&paramtypes.MsgUpdateTotalBlocksPerYear{Creator: GovAddr(), TotalBlocksPerYear: 100}))
	}
	// leveragelp sweep width and safety factor
	lp := lptypes.DefaultParams()
	switch UniformDraw(t, "lpparams", 4) {
	case 1:
		lp.NumberPerBlock = 0
	case 2:
		lp.NumberPerBlock = 1
	case 3:
		lp.SafetyFactor = dec("1.5")
	}
	if err := lp.Validate(); err == nil {
		spec.GovMsgs = append(spec.GovMsgs, govJSON(&lptypes.MsgUpdateParams{Authority: GovAddr(), Params: &lp}))
	}
	if UniformDraw(t, "eden", 3) == 0 {
		spec.EdenPerYear = 0
	}
	return spec
}

var ProfileC18 = &Profile{
	MultiMsg: true,
	ID:       "C18", Name: "faults", MinBlocks: 8, MaxBlocks: 50, MaxTxs: 6, Spec: withPoolPricedElys(withModestUser(withBurner(specFaulty))), Weights: withWeights(allWeights(), map[string]int{"oracle.refresh": 12, "oracle.feed_price": 8}),
	BlockFailureIsViolation: true, VaryFees: true,
	Check: CheckC18,
	Gaps:  []time.Duration{time.Second, 5 * time.Second, 6 * time.Second, 5 * time.Second, time.Hour + time.Second, 24*time.Hour + time.Second, 8 * 24 * time.Hour, 40 * 24 * time.Hour},
	Rule:  "history with >=1 block processed while a price needed by an open position/pool was absent (expired feed) and >=1 block after a gap >= 1 day, with >=1 open leveraged position at some point",
	NonTrivial: func(h *History) bool {
		return h.Labels["block-with-missing-price"] > 0 && h.Labels["gap>=1d"] > 0 && (okCount(h, "leveragelp.open", "perpetual.open") > 0)
	},
}

// ProfileC18Params: the same fault histories, with governance changing module parameters between blocks to
// settings that every validation layer accepts ("parameter settings permitted by validation").
var ProfileC18Params = func() *Profile {
	p := *ProfileC18
	p.Name = "faults-params"
	p.PreBlock = func(h *History, g *G) []EnvAction {
		if g.Int("pg?", 0, 3) != 0 {
			return nil
		}
		var e *EnvAction
		if g.Bool("pg/knob?") {
			e = GenGovKnob(h, g)
		} else {
			drawModeFields, moderateParams = true, false
			e = GenParamChange(h, g)
			drawModeFields, moderateParams = false, true
		}
		if e != nil {
			return []EnvAction{*e}
		}
		return nil
	}
	p.Rule = "history with >=1 applied governance parameter change (a boundary value accepted by Params.Validate, ValidateBasic and the handler), >=1 block after a gap >= 1 day and >=1 open leveraged position at some point"
	p.NonTrivial = func(h *History) bool {
		return h.Labels["param-change-applied"]+h.Labels["gov-knob-applied"] > 0 && h.Labels["gap>=1d"] > 0 && (okCount(h, "leveragelp.open", "perpetual.open") > 0)
	}
	return &p
}()

// ProfileC18Staking: the staking side of block processing (estaking's virtual Eden/EdenB delegations,
// distribution hooks, the end-blocker's automatic withdrawals, epoch boundaries): stake, commit, partial
// unstakes, uncommits and claims by the same few accounts over many blocks.
// c18StakerLife: one account lives a staker's whole life in order – stake, commit its boost tokens, take a part of
// them back, unstake a part, and again – instead of waiting for the grammar to line those four steps up for one
// account. Every step is sized from the account's real state on the chain.
func c18StakerLife(h *History, g *G) []*Op {
	u := h.W.Accounts[0]
	addr := u.Addr.String()
	g.Busy[addr] = true // this account does nothing else in the whole history
	if g.Int("c18/life?", 0, 1) != 0 {
		return nil
	}
	del := sdkmath.ZeroInt()
	if val, err := sdk.ValAddressFromBech32(h.W.ValAddr); err == nil {
		if d, err := h.W.App.StakingKeeper.GetDelegation(h.W.ReadCtx(), u.Addr, val); err == nil {
			del = d.Shares.TruncateInt()
		}
	}
	committed, claimed := g.S.CommittedOf(addr, paramtypes.EdenB), g.claimedOf(addr, paramtypes.EdenB)
	pct := func(label string, of sdkmath.Int, lo, hi int) sdkmath.Int {
		return maxInt(of.MulRaw(int64(g.Int(label, lo, hi))).QuoRaw(100), sdkmath.OneInt())
	}
	step, _ := h.Ext["c18-life-step"].(int)
	var msg sdk.Msg
	switch {
	case !del.IsPositive():
		msg = &ctypes.MsgStake{Creator: addr, Amount: sdkmath.NewInt(int64(g.Int("c18/life-stake", 1_000_000, 5_000_000_000))), Asset: paramtypes.Elys, ValidatorAddress: h.W.ValAddr}
	case !committed.IsPositive() && claimed.IsPositive():
		amt := claimed
		if g.Bool("c18/life-commit-part") {
			amt = pct("c18/life-commit", claimed, 50, 100)
		}
		msg = &ctypes.MsgCommitClaimedRewards{Creator: addr, Amount: amt, Denom: paramtypes.EdenB}
	case committed.IsPositive() && step%2 == 0:
		msg = &ctypes.MsgUncommitTokens{Creator: addr, Amount: pct("c18/life-uncommit", committed, 1, 60), Denom: paramtypes.EdenB}
		h.Ext["c18-life-step"] = step + 1
	default:
		msg = &ctypes.MsgUnstake{Creator: addr, Amount: pct("c18/life-unstake", del, 5, 95), Asset: paramtypes.Elys, ValidatorAddress: h.W.ValAddr}
		h.Ext["c18-life-step"] = step + 1
	}
	g.Busy[addr] = true
	h.Labels["c18-staker-life-steps"]++
	return []*Op{{Signer: u, Kind: "c18.staker_life/" + strings.TrimPrefix(sdk.MsgTypeURL(msg), "/elys.commitment.Msg"), Msg: msg}}
}

var ProfileC18Staking = func() *Profile {
	p := *ProfileC18
	p.Name = "faults-staking"
	p.Spec = specDefault
	p.ExtraOps = c18StakerLife
	p.Weights = map[string]int{"commitment.stake": 12, "commitment.unstake": 14, "commitment.commit_claimed": 10, "commitment.uncommit": 8, "estaking.withdraw_rewards": 5,
		"masterchef.claim": 4, "commitment.vest": 3, "commitment.cancel_vest": 2, "commitment.claim_vesting": 2, "amm.join": 3, "amm.swap_in": 4, "stablestake.bond": 2, "oracle.refresh": 3, "oracle.feed_price": 2}
	p.Rule = "history with >=2 successful unstakes and >=1 successful stake and commit of Eden/EdenB, and >=1 block after a gap >= 1 day"
	p.NonTrivial = func(h *History) bool {
		return okCount(h, "commitment.unstake") >= 2 && okCount(h, "commitment.stake") >= 1 && okCount(h, "commitment.commit_claimed") >= 1 && h.Labels["gap>=1d"] > 0
	}
	return &p
}()

var ProfileC04 = &Profile{
	MultiMsg: true,
	ID:       "C04", Name: "swap-batch", MinBlocks: 4, MaxBlocks: 25, MaxTxs: 4, Spec: withSkew(specDefault), Check: CheckC04, ExtraOps: c04ExtraOps,
	Weights: map[string]int{"amm.swap_in": 8, "amm.swap_out": 6, "amm.join": 4, "amm.exit": 3, "oracle.feed_price": 6, "perpetual.open": 3, "perpetual.close": 2, "stablestake.bond": 1, "amm.swap_in_2hop": 2, "amm.feed_external_liquidity": 2, "tier.set_portfolio": 2},
	Gaps:    []time.Duration{time.Second, 5 * time.Second, 6 * time.Second},
	Rule:    "history with >=2 accepted requests of one sender in a block, or an accepted request that was not executable at end-block (accepted but no balance effect), and >=1 two-hop request delivered to a passive recipient",
	NonTrivial: func(h *History) bool {
		return (h.Labels["c04-multi-request-sender"] > 0 || h.Labels["c04-accepted-but-not-executed"] > 0) && okCount(h, "c04.swap_in_2hop", "c04.swap_out_2hop") > 0
	},
}

// c07ExtraOps: "depositing then immediately withdrawing never returns more than was deposited", on the chain: one
// atomic transaction bonds x and unbonds the shares x buys at the rate in force – sent, by preference, by an account
// that also owns a leveraged position (its bond walks through the tier / leveragelp hooks).
func c07ExtraOps(h *History, g *G) []*Op {
	if g.Int("c07/rt?", 0, 2) != 0 {
		return nil
	}
	s := g.S
	var cands []*Account
	for _, p := range s.LPPositions {
		if a := h.W.ByAddr[p.Address]; a != nil && !g.Busy[p.Address] {
			cands = append(cands, a)
		}
	}
	var u *Account
	if len(cands) > 0 && g.Int("c07/rtowner", 0, 3) > 0 {
		u = cands[g.Pick("c07/rtwho", len(cands))]
	} else {
		u = g.User()
	}
	if g.Busy[u.Addr.String()] {
		return nil
	}
	sup := s.Supply.AmountOf(sstypes.GetShareDenom())
	if !sup.IsPositive() || !s.SSParams.TotalValue.IsPositive() {
		return nil
	}
	x := g.ModestAmount("c07/rtamt", sdkmath.NewInt(20_000_000_000))
	shares := x.Mul(sup).Quo(s.SSParams.TotalValue) // floor(x / rate) at the committed rate
	if !shares.IsPositive() {
		return nil
	}
	g.Busy[u.Addr.String()] = true
	h.Labels["c07-chain-roundtrips"]++
	return []*Op{{Signer: u, Kind: "c07.roundtrip", Msg: &sstypes.MsgBond{Creator: u.Addr.String(), Amount: x},
		More: []sdk.Msg{&sstypes.MsgUnbond{Creator: u.Addr.String(), Amount: shares}}}}
}

var ProfileC07 = &Profile{
	MultiMsg: true,
	ID:       "C07", Name: "vault-chain", MinBlocks: 5, MaxBlocks: 40, MaxTxs: 5, Spec: specLending, Check: CheckC07Chain, PreBlock: vaultGov, ExtraOps: c07ExtraOps,
	Weights: withWeights(ProfileC06.Weights, map[string]int{"stablestake.bond": 14, "stablestake.unbond": 12, "leveragelp.open": 16}),
	Gaps:    ProfileC06.Gaps,
	Rule:    "history in which the vault share value had a long fractional part while lenders bonded and unbonded and a loan was granted",
	NonTrivial: func(h *History) bool {
		return h.Labels["c07-fractional-rate"] > 0 && okCount(h, "leveragelp.open") > 0 && okCount(h, "stablestake.unbond") > 0 && okCount(h, "stablestake.bond") > 1
	},
}

// c20Gov: a listing change while orders are pending – governance takes the pool off the leverage list (which also
// deletes its perpetual pool) and may list it again later.
func c20Gov(h *History, g *G) []EnvAction {
	if g.Int("c20gov?", 0, 9) != 0 {
		return nil
	}
	if len(h.Cur.LPPools) > 0 {
		lp := h.Cur.LPPools[g.Pick("c20gov/pool", len(h.Cur.LPPools))]
		msg := &lptypes.MsgRemovePool{Authority: GovAddr(), Id: lp.AmmPoolId}
		if hd := h.W.App.MsgServiceRouter().Handler(msg); hd != nil {
			cctx, _ := h.W.SetupCtx().CacheContext()
			if err := safeCall(func() error { _, e := hd(cctx, msg); return e }); err == nil {
				h.Labels["gov-pool-delisted"]++
				return []EnvAction{h.W.GovEnv(msg)}
			}
		}
		return nil
	}
	for _, p := range h.Cur.Pools {
		if p.PoolParams.UseOracle {
			msg := &lptypes.MsgAddPool{Authority: GovAddr(), Pool: lptypes.AddPool{AmmPoolId: p.PoolId, LeverageMax: sdkmath.LegacyNewDec(10)}}
			if hd := h.W.App.MsgServiceRouter().Handler(msg); hd != nil {
				cctx, _ := h.W.SetupCtx().CacheContext()
				if err := safeCall(func() error { _, e := hd(cctx, msg); return e }); err == nil {
					h.Labels["gov-pool-relisted"]++
					return []EnvAction{h.W.GovEnv(msg)}
				}
			}
		}
	}
	return nil
}

var ProfileC20 = &Profile{
	MultiMsg: true,
	ID:       "C20", Name: "tradeshield", MinBlocks: 6, MaxBlocks: 40, MaxTxs: 4, Spec: withPoolPricedElys(specDefault), Check: CheckC20, ExtraOps: c20ExtraOps, Filter: c20Filter, PreBlock: c20Gov,
	Weights: map[string]int{"tradeshield.execute": 14, "oracle.feed_price": 10, "amm.swap_in": 5, "amm.swap_out": 3, "perpetual.open": 3, "perpetual.close": 2, "amm.join": 5, "amm.exit": 4, "stablestake.bond": 1},
	Gaps:    []time.Duration{time.Second, 5 * time.Second, 6 * time.Second, time.Hour + time.Second},
	Rule:    "history with an execution request that left a named order pending (skipped or failed attempt) followed later by the owner's cancel of that order, and >=1 executed order",
	NonTrivial: func(h *History) bool {
		return h.Labels["c20-cancel-after-failed-or-skipped-attempt"] > 0 && h.Labels["c20-spot-executed"]+h.Labels["c20-perp-executed"] > 0
	},
	Prepare: func(h *History) error {
		h.Cur = h.W.Snapshot()
		s, p := h.c20Triggers()
		h.Ext["c20-spot-trig"], h.Ext["c20-perp-trig"] = s, p
		h.Ext["c20-market"] = h.c20MarketTable()
		return nil
	},
}

// c10ExtraOps: "every successful open or consolidating re-open leaves the position healthy". Now and then the
// price of a position's asset crashes and, in the same block (before any sweep can run), its owner re-opens on
// top of it with a small collateral and leverage 1 (leveragelp) or 0 / just above 1 (perpetual) – an increment that borrows nothing and is harmless by itself.
// c10SweepAfterPoolChange: on a pool that carries leveraged-LP positions *and* perpetual positions, somebody makes a
// small change to the pool (a single-sided dust join – every amm change runs the hooks that refresh the pool's
// valuation) and, in the same block, the bot asks for the liquidation and the stop-loss close of every leveraged-LP
// position there is. Healthy, untriggered positions must come out of that untouched.
func c10SweepAfterPoolChange(h *History, g *G) []*Op {
	s := g.S
	if len(s.LPPositions) == 0 || len(s.MTPs) == 0 || g.Busy[h.W.Bot.Addr.String()] {
		return nil
	}
	pool := s.Pool(s.LPPositions[0].AmmPoolId)
	if pool == nil {
		return nil
	}
	var joiner *Account
	owners := map[string]bool{}
	for _, p := range s.LPPositions {
		owners[p.Address] = true
	}
	for _, a := range h.W.Accounts {
		if !owners[a.Addr.String()] && !g.Busy[a.Addr.String()] {
			joiner = a
		}
	}
	if joiner == nil {
		return nil
	}
	msg := &lptypes.MsgClosePositions{Creator: h.W.Bot.Addr.String()}
	for _, p := range s.LPPositions {
		if p.AmmPoolId != pool.PoolId {
			continue
		}
		g.Busy[p.Address] = true // named owners send nothing in this block
		msg.Liquidate = append(msg.Liquidate, &lptypes.PositionRequest{Address: p.Address, Id: p.Id})
		if !p.StopLossPrice.IsNil() && p.StopLossPrice.IsPositive() {
			msg.StopLoss = append(msg.StopLoss, &lptypes.PositionRequest{Address: p.Address, Id: p.Id})
		}
	}
	g.Busy[joiner.Addr.String()], g.Busy[h.W.Bot.Addr.String()] = true, true
	d := pool.PoolAssets[g.Pick("c10/dustdenom", len(pool.PoolAssets))].Token.Denom
	h.Labels["c10-sweep-after-pool-change"]++
	return []*Op{
		{Signer: joiner, Kind: "c10.dust_join", Msg: &ammtypes.MsgJoinPool{Sender: joiner.Addr.String(), PoolId: pool.PoolId,
			MaxAmountsIn: sdk.NewCoins(sdk.NewCoin(d, sdkmath.NewInt(int64(g.Int("c10/dust", 1_000, 5_000_000))))), ShareAmountOut: sdkmath.OneInt()}},
		{Signer: h.W.Bot, Kind: "c10.sweep_all_lp", Msg: msg},
	}
}

func c10ExtraOps(h *History, g *G) []*Op {
	s := g.S
	if g.Int("c10/sweep?", 0, 4) == 0 {
		if ops := c10SweepAfterPoolChange(h, g); ops != nil {
			return ops
		}
	}
	if g.Int("c10/reopen?", 0, 3) != 0 {
		return nil
	}
	var ops []*Op
	crash := func(denom string) {
		cur := g.priceOf(denom)
		if !cur.IsPositive() {
			return
		}
		np := cur.MulInt64(int64(100 - g.Int("c10/crash", 10, 60))).QuoInt64(100)
		f := h.W.Feeder
		ops = append(ops, &Op{Signer: f, Kind: "c10.crash_feed", Msg: &oracletypes.MsgFeedPrice{Provider: f.Addr.String(),
			FeedPrice: oracletypes.FeedPrice{Asset: displayOf(denom), Price: np, Source: "elys"}}})
	}
	if g.Bool("c10/lp") {
		var cands []lptypes.Position
		for _, p := range s.LPPositions {
			if a := h.W.ByAddr[p.Address]; a != nil && !g.Busy[p.Address] {
				cands = append(cands, p)
			}
		}
		if len(cands) == 0 {
			return nil
		}
		pos := cands[g.Pick("c10/lppos", len(cands))]
		owner := h.W.ByAddr[pos.Address]
		if pool := s.Pool(pos.AmmPoolId); pool != nil {
			for _, a := range pool.PoolAssets {
				if a.Token.Denom != paramtypes.BaseCurrency {
					crash(a.Token.Denom)
				}
			}
		}
		g.Busy[pos.Address] = true
		h.Labels["c10-crash-then-owner-reopen"]++
		ops = append(ops, &Op{Signer: owner, Kind: "c10.lp_reopen_leverage1", Msg: &lptypes.MsgOpen{Creator: owner.Addr.String(), CollateralAsset: paramtypes.BaseCurrency,
			CollateralAmount: sdkmath.NewInt(int64(g.Int("c10/topup", 1, 50_000_000))), AmmPoolId: pos.AmmPoolId, Leverage: sdkmath.LegacyOneDec(), StopLossPrice: sdkmath.LegacyZeroDec()}})
		return ops
	}
	var cands []perptypes.MTP
	for _, m := range s.MTPs {
		if a := h.W.ByAddr[m.Address]; a != nil && !g.Busy[m.Address] && m.Position == perptypes.Position_LONG {
			cands = append(cands, m)
		}
	}
	if len(cands) == 0 {
		return nil
	}
	m := cands[g.Pick("c10/mtp", len(cands))]
	owner := h.W.ByAddr[m.Address]
	crash(m.TradingAsset)
	g.Busy[m.Address] = true
	h.Labels["c10-crash-then-owner-reopen"]++
	ops = append(ops, &Op{Signer: owner, Kind: "c10.perp_reopen_leverage1", Msg: &perptypes.MsgOpen{Creator: owner.Addr.String(), Position: m.Position, Leverage: []sdkmath.LegacyDec{sdkmath.LegacyZeroDec(), sdkmath.LegacyMustNewDecFromStr("1.1"), sdkmath.LegacyNewDec(2)}[g.Pick("c10/plev", 3)],
		TradingAsset: m.TradingAsset, Collateral: sdk.NewCoin(m.CollateralAsset, sdkmath.NewInt(int64(g.Int("c10/ptopup", 1, 50_000_000)))), TakeProfitPrice: m.TakeProfitPrice, StopLossPrice: sdkmath.LegacyZeroDec(), PoolId: m.AmmPoolId}})
	return ops
}

var ProfileC10 = &Profile{
	MultiMsg: true,
	ID:       "C10", Name: "forced-close", MinBlocks: 6, MaxBlocks: 40, MaxTxs: 5, Spec: specLending, Check: CheckC10, ExtraOps: c10ExtraOps,
	Weights: map[string]int{"stablestake.bond": 6, "leveragelp.open": 12, "leveragelp.close": 4, "leveragelp.close_positions": 8, "leveragelp.update_stop_loss": 3,
		"perpetual.open": 14, "perpetual.close": 4, "perpetual.close_positions": 10, "perpetual.update_stop_loss": 3, "perpetual.update_take_profit": 2,
		"oracle.feed_price": 12, "amm.swap_in": 4, "amm.swap_out": 2, "amm.join": 2, "amm.exit": 1},
	Rule: "history in which a third party altered or closed at least one position (judged eligible on the previous state) and a close-positions request named a position that stayed untouched",
	NonTrivial: func(h *History) bool {
		return h.Labels["c10-lp-forced-close-eligible"]+h.Labels["c10-mtp-forced-close-eligible"] > 0 && h.Labels["c10-named-but-untouched"] > 0
	},
}

// specLending: default world plus a generated (validated) leveragelp parameter set: the begin-block
// sweep touches every position every block by default, which materialises interest before any tx of
// the block runs; with the sweep off / narrow / sparse, lazy accrual inside transactions is exercised.
func specLending(t *rapid.T) WorldSpec {
	spec := specDefault(t)
	lp := lptypes.DefaultParams()
	switch UniformDraw(t, "lpsweep", 4) {
	case 1:
		lp.FallbackEnabled = false
	case 2:
		lp.NumberPerBlock = 1
	case 3:
		lp.EpochLength = 7
	}
	if err := lp.Validate(); err == nil {
		spec.GovMsgs = append(spec.GovMsgs, govJSON(&lptypes.MsgUpdateParams{Authority: GovAddr(), Params: &lp}))
	}
	return spec
}
