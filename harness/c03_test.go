package harness

import (
	"encoding/json"
	"fmt"
	"math/big"
	"os"
	"testing"

	sdkmath "cosmossdk.io/math"
	sdk "github.com/cosmos/cosmos-sdk/types"
	"pgregory.net/rapid"

	ammtypes "github.com/elys-network/elys/x/amm/types"
)

// C03 (E2): no swap beats the reference price.

type c03Case struct {
	Property string `json:"property"`
	Kind     string `json:"kind"`
	Bi       string `json:"reserve_in"`
	Bo       string `json:"reserve_out"`
	Wi       int64  `json:"weight_in"`
	Wo       int64  `json:"weight_out"`
	Fee      string `json:"swap_fee"`
	Amount   string `json:"amount"`
	Amount2  string `json:"amount2,omitempty"`
	What     string `json:"violation,omitempty"`
}

func (c c03Case) pool() ammtypes.Pool {
	bi, _ := sdkmath.NewIntFromString(c.Bi)
	bo, _ := sdkmath.NewIntFromString(c.Bo)
	return mkPool(1, false,
		ammtypes.PoolAsset{Token: sdk.NewCoin("uaaa", bi), Weight: sdkmath.NewInt(c.Wi), ExternalLiquidityRatio: sdkmath.LegacyOneDec()},
		ammtypes.PoolAsset{Token: sdk.NewCoin("ubbb", bo), Weight: sdkmath.NewInt(c.Wo), ExternalLiquidityRatio: sdkmath.LegacyOneDec()},
		sdkmath.LegacyMustNewDecFromStr(c.Fee))
}

func safely[T any](f func() (T, error)) (v T, err error) {
	defer func() {
		if r := recover(); r != nil {
			err = fmt.Errorf("rejected by panic: %v", r)
		}
	}()
	return f()
}

func calcOut(p ammtypes.Pool, inDenom, outDenom string, ain sdkmath.Int, fee sdkmath.LegacyDec) (sdkmath.Int, error) {
	c, err := safely(func() (sdk.Coin, error) {
		snap := p
		c, _, err := p.CalcOutAmtGivenIn(pureCtx(), fakeOracle{}, &snap, sdk.Coins{sdk.NewCoin(inDenom, ain)}, outDenom, fee, fakeAccounted{})
		return c, err
	})
	if err != nil {
		return sdkmath.Int{}, err
	}
	return c.Amount, nil
}

func calcIn(p ammtypes.Pool, inDenom, outDenom string, aout sdkmath.Int, fee sdkmath.LegacyDec) (sdkmath.Int, error) {
	c, err := safely(func() (sdk.Coin, error) {
		snap := p
		c, _, err := p.CalcInAmtGivenOut(pureCtx(), fakeOracle{}, &snap, sdk.Coins{sdk.NewCoin(outDenom, aout)}, inDenom, fee, fakeAccounted{})
		return c, err
	})
	if err != nil {
		return sdkmath.Int{}, err
	}
	return c.Amount, nil
}

// bookSwap updates the pool copy the way keeper.UpdatePoolForSwap books an exact-in swap:
// token in added, token out removed, swap fee (rounded portion of token in) sent out of the pool.
func bookSwap(p *ammtypes.Pool, inDenom, outDenom string, ain, out sdkmath.Int, fee sdkmath.LegacyDec) {
	feeAmt := ain.ToLegacyDec().Mul(fee).RoundInt()
	setReserve(p, inDenom, reserveOf(p, inDenom).Add(ain).Sub(feeAmt))
	setReserve(p, outDenom, reserveOf(p, outDenom).Sub(out))
}

// runC03Case evaluates every C03 relation of the constant-product family on one concrete case.
func runC03Case(c c03Case) (violation string, nontrivial bool, labels []string) {
	p := c.pool()
	bi, bo := reserveOf(&p, "uaaa"), reserveOf(&p, "ubbb")
	fee := p.PoolParams.SwapFee
	amt, _ := sdkmath.NewIntFromString(c.Amount)
	switch c.Kind {
	case "exact-in":
		out, err := calcOut(p, "uaaa", "ubbb", amt, fee)
		if err != nil {
			return "", false, []string{"rejected"}
		}
		if v := checkExactInBound(bi, bo, c.Wi, c.Wo, fee, amt, out); v != "" {
			return v, true, nil
		}
	case "exact-out":
		if amt.GTE(bo) {
			if _, err := calcIn(p, "uaaa", "ubbb", amt, fee); err == nil {
				return fmt.Sprintf("exact-out of %s >= reserve %s was not rejected", amt, bo), true, nil
			}
			return "", false, []string{"rejected"}
		}
		in, err := calcIn(p, "uaaa", "ubbb", amt, fee)
		if err != nil {
			return "", false, []string{"rejected"}
		}
		if v := checkExactOutBound(bi, bo, c.Wi, c.Wo, fee, amt, in); v != "" {
			return v, true, nil
		}
	case "round-trip":
		out, err := calcOut(p, "uaaa", "ubbb", amt, fee)
		if err != nil {
			return "", false, []string{"rejected"}
		}
		// the metamorphic relations are asserted on the regular domain only (no reserve below 1e6
		// units, weight ratio <= 4, no leg taking more than 30% of a reserve): outside it the curve
		// itself amplifies the per-leg fixed-point allowance without bound, so the relation would
		// either be vacuous or raise false alarms; every leg is still decided by the exact bound
		if !regular(bi, bo, c.Wi, c.Wo) || out.MulRaw(10).GT(bo.MulRaw(3)) {
			if v := checkExactInBound(bi, bo, c.Wi, c.Wo, fee, amt, out); v != "" {
				return v, true, nil
			}
			return "", false, []string{"round-trip-outside-regular-domain"}
		}
		q := clonePool(p)
		bookSwap(&q, "uaaa", "ubbb", amt, out, fee)
		back, err := calcOut(q, "ubbb", "uaaa", out, fee)
		if err != nil {
			return "", false, []string{"rejected-second-leg"}
		}
		// allowance: output-side fixed point twice, one unit of A for the first leg's fee skim, and the
		// second leg's fee skim (rounded to a whole unit of B) valued in A at the post-first-leg spot price
		if back.MulRaw(10).GT(reserveOf(&q, "uaaa").MulRaw(3)) {
			return "", false, []string{"round-trip-outside-regular-domain"}
		}
		// allowance (first order, x4 head-room for the price moving by at most ~2x inside the regular
		// domain): leg 2's own fixed point, plus leg 1's fixed point and the fee skims' unit rounding
		// valued in A at the post-first-leg spot price
		allow := new(big.Int).Mul(tolFor(reserveOf(&q, "uaaa"), c.Wi == c.Wo), big.NewInt(4))
		uv := unitValue(reserveOf(&q, "ubbb"), reserveOf(&q, "uaaa"), c.Wo, c.Wi)
		legB := new(big.Int).Add(tolFor(bo, c.Wi == c.Wo), big.NewInt(2))
		allow.Add(allow, new(big.Int).Mul(new(big.Int).Mul(uv, legB), big.NewInt(4))).Add(allow, big.NewInt(4))
		if back.BigInt().Cmp(new(big.Int).Add(amt.BigInt(), allow)) > 0 {
			return fmt.Sprintf("round trip A->B->A returned %s for %s paid in (allowance %s): reserves %s/%s weights %d:%d fee %s", back, amt, allow, bi, bo, c.Wi, c.Wo, fee), true, nil
		}
	case "split":
		a2, _ := sdkmath.NewIntFromString(c.Amount2)
		whole, err := calcOut(p, "uaaa", "ubbb", amt.Add(a2), fee)
		if err != nil {
			return "", false, []string{"rejected"}
		}
		o1, err := calcOut(p, "uaaa", "ubbb", amt, fee)
		if err != nil {
			return "", false, []string{"rejected"}
		}
		if !regular(bi, bo, c.Wi, c.Wo) || whole.MulRaw(10).GT(bo.MulRaw(3)) {
			return "", false, []string{"split-outside-regular-domain"}
		}
		q := clonePool(p)
		bookSwap(&q, "uaaa", "ubbb", amt, o1, fee)
		o2, err := calcOut(q, "uaaa", "ubbb", a2, fee)
		if err != nil {
			return "", false, []string{"rejected-second-leg"}
		}
		// allowance: output-side fixed point twice plus the fee skims' rounding (whole units of the input
		// token, up to one unit per leg) valued in output tokens at the initial spot price
		allow := new(big.Int).Mul(tolFor(bo, c.Wi == c.Wo), big.NewInt(4))
		allow.Add(allow, new(big.Int).Mul(unitValue(bi, bo, c.Wi, c.Wo), big.NewInt(8)))
		if new(big.Int).Add(o1.BigInt(), o2.BigInt()).Cmp(new(big.Int).Add(whole.BigInt(), allow)) > 0 {
			return fmt.Sprintf("splitting %s+%s paid %s+%s=%s, more than the single trade's %s (allowance %s): reserves %s/%s weights %d:%d fee %s", amt, a2, o1, o2, o1.Add(o2), whole, allow, bi, bo, c.Wi, c.Wo, fee), true, nil
		}
	}
	// non-trivial: trade between 1e-6 of the reserve and the reserve; dust counted separately
	ref := bi
	if c.Kind == "exact-out" {
		ref = bo
	}
	if amt.LTE(sdkmath.NewInt(10)) {
		labels = append(labels, "dust-trade")
	}
	nt := amt.MulRaw(1_000_000).GTE(ref) && amt.LTE(ref)
	if c.Wi != c.Wo {
		labels = append(labels, "unequal-weights")
	}
	return "", nt, append(labels, c.Kind)
}

func TestC03(t *testing.T) {
	if path := os.Getenv("VERIF_REPLAY"); path != "" {
		bz, err := os.ReadFile(path)
		if err != nil {
			t.Fatalf("harness: %v", err)
		}
		var c c03Case
		if err := json.Unmarshal(bz, &c); err != nil {
			t.Fatalf("harness: %v", err)
		}
		var v string
		if c.Kind == "oracle" {
			t.Skip("oracle cases are replayed by TestC03Oracle")
		}
		if v, _, _ = runC03Case(c); v != "" {
			t.Fatalf("VIOLATION C03 (replay): %s", v)
		}
		return
	}
	sum := newSummary()
	defer sum.emit()
	weights := [][2]int64{{1, 1}, {50, 50}, {2, 1}, {1, 2}, {80, 20}, {20, 80}, {3, 7}, {99, 1}, {1, 99}, {5, 3}, {33, 67}, {10, 1}}
	fees := []string{"0", "0.001", "0.003", "0.02", "0.000000000000000001", "0.019999999999999999", "0.0025"}
	kinds := []string{"exact-in", "exact-in", "exact-out", "exact-out", "round-trip", "split"}
	rapid.Check(t, func(rt *rapid.T) {
		w := weights[UniformDraw(rt, "w", len(weights))]
		c := c03Case{Property: "C03", Kind: kinds[UniformDraw(rt, "kind", len(kinds))], Wi: w[0], Wo: w[1], Fee: fees[UniformDraw(rt, "fee", len(fees))]}
		bi, bo := logUniformInt(rt, "bi", 1, 26), logUniformInt(rt, "bo", 1, 26)
		c.Bi, c.Bo = bi.String(), bo.String()
		ref := bi
		if c.Kind == "exact-out" {
			ref = bo
		}
		var amt sdkmath.Int
		switch UniformDraw(rt, "amtclass", 8) {
		case 0:
			amt = sdkmath.NewInt(int64(1 + UniformDraw(rt, "dust", 10)))
		case 1:
			amt = ref.SubRaw(int64(UniformDraw(rt, "below", 3)))
		case 2:
			amt = ref.AddRaw(int64(UniformDraw(rt, "above", 3)))
		case 3:
			amt = ref.MulRaw(int64(2 + UniformDraw(rt, "mult", 99)))
		default:
			amt = ref.MulRaw(int64(1 + UniformDraw(rt, "ppm", 999_999))).QuoRaw(1_000_000)
		}
		if !amt.IsPositive() {
			amt = sdkmath.OneInt()
		}
		if c.Kind == "round-trip" || c.Kind == "split" {
			// construct inside the regular domain (construction over rejection)
			rw := [][2]int64{{1, 1}, {50, 50}, {2, 1}, {1, 2}, {3, 1}, {4, 1}, {1, 4}, {5, 3}, {3, 5}}
			w := rw[UniformDraw(rt, "rw", len(rw))]
			c.Wi, c.Wo = w[0], w[1]
			bi, bo = logUniformInt(rt, "rbi", 7, 24), logUniformInt(rt, "rbo", 7, 24)
			c.Bi, c.Bo = bi.String(), bo.String()
			switch UniformDraw(rt, "ramt", 5) {
			case 0:
				amt = sdkmath.NewInt(int64(1 + UniformDraw(rt, "rdust", 1000)))
			default:
				amt = maxInt(bi.MulRaw(int64(1+UniformDraw(rt, "rppm", 150_000))).QuoRaw(1_000_000), sdkmath.OneInt())
			}
		}
		c.Amount = amt.String()
		if c.Kind == "split" {
			c.Amount2 = maxInt(amt.MulRaw(int64(1+UniformDraw(rt, "split", 300))).QuoRaw(100), sdkmath.OneInt()).String()
		}
		v, nt, labels := runC03Case(c)
		if v != "" {
			c.What = v
			if p := os.Getenv("VERIF_FAILTRACE"); p != "" {
				bz, _ := json.MarshalIndent(c, "", " ")
				_ = os.WriteFile(p, bz, 0o644)
			}
			rt.Fatalf("VIOLATION C03: %s", v)
		}
		key, _ := json.Marshal(c)
		sum.record(string(key), nt, labels, c)
	})
	_ = big.NewInt
}

// unitValue: ceil of the spot value of one base unit of the token with reserve bx (weight wx)
// expressed in the token with reserve by (weight wy): by*wx/(bx*wy).
func unitValue(bx, by sdkmath.Int, wx, wy int64) *big.Int {
	if !bx.IsPositive() {
		return by.BigInt()
	}
	n := new(big.Int).Mul(by.BigInt(), big.NewInt(wx))
	d := new(big.Int).Mul(bx.BigInt(), big.NewInt(wy))
	q, r := new(big.Int).QuoRem(n, d, new(big.Int))
	if r.Sign() != 0 {
		q.Add(q, big.NewInt(1))
	}
	return q
}

func regular(bi, bo sdkmath.Int, wi, wo int64) bool {
	min := sdkmath.NewInt(1_000_000)
	return bi.GTE(min) && bo.GTE(min) && wi <= 4*wo && wo <= 4*wi
}
