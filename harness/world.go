// Package harness: E1 chain engine — drives the real ElysApp through real ABCI
// calls (InitChain, FinalizeBlock with signed txs, Commit).
package harness

import (
	"encoding/json"
	"fmt"
	"os"
	"runtime/debug"
	"sort"
	"strings"
	"sync/atomic"
	"time"

	"cosmossdk.io/log"
	sdkmath "cosmossdk.io/math"
	abci "github.com/cometbft/cometbft/abci/types"
	cmtproto "github.com/cometbft/cometbft/proto/tendermint/types"
	cmttypes "github.com/cometbft/cometbft/types"
	dbm "github.com/cosmos/cosmos-db"
	"github.com/cosmos/cosmos-sdk/baseapp"
	"github.com/cosmos/cosmos-sdk/client"
	"github.com/cosmos/cosmos-sdk/client/flags"
	codectypes "github.com/cosmos/cosmos-sdk/codec/types"
	cryptocodec "github.com/cosmos/cosmos-sdk/crypto/codec"
	"github.com/cosmos/cosmos-sdk/crypto/keys/ed25519"
	"github.com/cosmos/cosmos-sdk/crypto/keys/secp256k1"
	"github.com/cosmos/cosmos-sdk/server"
	simtestutil "github.com/cosmos/cosmos-sdk/testutil/sims"
	sdk "github.com/cosmos/cosmos-sdk/types"
	"github.com/cosmos/cosmos-sdk/types/tx/signing"
	authsigning "github.com/cosmos/cosmos-sdk/x/auth/signing"
	authtypes "github.com/cosmos/cosmos-sdk/x/auth/types"
	banktypes "github.com/cosmos/cosmos-sdk/x/bank/types"
	govtypes "github.com/cosmos/cosmos-sdk/x/gov/types"
	govv1 "github.com/cosmos/cosmos-sdk/x/gov/types/v1"
	stakingtypes "github.com/cosmos/cosmos-sdk/x/staking/types"
	consumertypes "github.com/cosmos/interchain-security/v6/x/ccv/consumer/types"

	elysapp "github.com/elys-network/elys/app"
	ammtypes "github.com/elys-network/elys/x/amm/types"
	atypes "github.com/elys-network/elys/x/assetprofile/types"
	burnertypes "github.com/elys-network/elys/x/burner/types"
	ctypes "github.com/elys-network/elys/x/commitment/types"
	oracletypes "github.com/elys-network/elys/x/oracle/types"
	ptypes "github.com/elys-network/elys/x/parameter/types"
)

const ChainID = "verif-1"

var GenesisTime = time.Date(2025, 1, 1, 0, 0, 0, 0, time.UTC)

// Account is a keyed account the harness can sign for.
type Account struct {
	Name string
	Priv *secp256k1.PrivKey
	Addr sdk.AccAddress
	Num  uint64
	Seq  uint64 // next sequence to use (tracked by the harness)
}

// Scenario fixes everything that goes into genesis (pure data, no RNG, no clock).
type Scenario struct {
	NumUsers         int      `json:"num_users"`
	Denoms           []string `json:"denoms"` // denoms every user is funded with
	FundAmount       string   `json:"fund_amount"`
	OracleLifeBlocks uint64   `json:"oracle_life_blocks"`
	OracleExpirySecs uint64   `json:"oracle_expiry_secs"`
	VestBlocks       int64    `json:"vest_blocks"` // Eden->ELYS vesting length in blocks
	VestNowFactor    int64    `json:"vest_now_factor"`
	MaxVestings      int64    `json:"max_vestings"`
	ClaimedEden      string   `json:"claimed_eden"` // initial claimed Eden/EdenB per user (ledger only)
	// burner module: tokens sent to the zero address are burnt when this epoch ends ("" = the module's default
	// identifier, which never fires); only denoms with bank metadata are burnt
	BurnEpoch  string   `json:"burn_epoch,omitempty"`
	BurnDenoms []string `json:"burn_denoms,omitempty"`
	// PoolPricedElys: the native token has no oracle feed (as on the live chain); every price look-up for it falls
	// back to the spot price of its best constant-product pool against the base currency
	PoolPricedElys bool `json:"pool_priced_elys,omitempty"`
	// ModestUser: the last user is no whale. It starts with ModestUSDC base-currency units and about 4 500 USD worth
	// of the other funded denoms, which puts its recorded portfolio into one of the lower membership tiers (the fee
	// discounts of Basic / Bronze / Silver / Gold instead of everybody's Platinum)
	ModestUser bool   `json:"modest_user,omitempty"`
	ModestUSDC string `json:"modest_usdc,omitempty"`
}

func DefaultScenario() Scenario {
	return Scenario{
		NumUsers:         5,
		Denoms:           []string{ptypes.Elys, ptypes.BaseCurrency, ptypes.ATOM, "uusdt"},
		FundAmount:       "1000000000000000",
		OracleLifeBlocks: 1000000,
		OracleExpirySecs: 86400 * 365,
		VestBlocks:       40,
		VestNowFactor:    90,
		MaxVestings:      4,
		ClaimedEden:      "5000000000",
	}
}

// TxRecord is one transaction of a block with its outcome.
type TxRecord struct {
	Signer  string       `json:"signer"`
	MsgType string       `json:"msg_type"`
	MsgJSON string       `json:"msg"`
	Fee     string       `json:"fee"`
	Code    uint32       `json:"code"`
	Log     string       `json:"log,omitempty"`
	GasUsed int64        `json:"gas_used"`
	Bytes   []byte       `json:"-"`
	Msg     sdk.Msg      `json:"-"`
	Events  []abci.Event `json:"-"`
	Data    []byte       `json:"-"`
	// JoinPrev: this record is a further message of the SAME transaction as the record before it (a
	// multi-message tx is listed message by message; all parts carry the tx's result code and log, the fee,
	// gas, bytes, data and events sit on the first part only)
	JoinPrev bool `json:"join_prev,omitempty"`
}

// BlockRecord is what happened in one committed block.
type BlockRecord struct {
	Height  int64        `json:"height"`
	Time    time.Time    `json:"time"`
	Txs     []TxRecord   `json:"txs"`
	AppHash []byte       `json:"app_hash"`
	Events  []abci.Event `json:"-"`
}

// World is one replica of the chain.
type World struct {
	App      *elysapp.ElysApp
	DB       dbm.DB
	diskDir  string // non-empty: DB is a goleveldb directory
	Scenario Scenario
	Genesis  []byte
	Accounts []*Account // users
	Feeder   *Account
	Bot      *Account
	Admin    *Account   // pool creator; allowed pool creator
	// Delegator holds the genesis validator's whole delegation: the only voting power at genesis. It submits and
	// votes real governance proposals (gov.go); it never does anything else.
	Delegator *Account
	Sinks    []*Account // passive recipients: never sign, start empty
	ByAddr   map[string]*Account
	Height   int64
	Time     time.Time
	ValHash  []byte
	ValAddr  string // operator address of the genesis validator
	Pending  []TxRecord
	Blocks   []BlockRecord
	homeDir  string
	// BlockErr is set when FinalizeBlock/Commit returned an error or panicked.
	BlockErr      error
	BlockErrStack string
}

func GovAddr() string { return authtypes.NewModuleAddress(govtypes.ModuleName).String() }

func mkAccount(name string) *Account {
	priv := secp256k1.GenPrivKeyFromSecret([]byte("verif-acct-" + name))
	return &Account{Name: name, Priv: priv, Addr: sdk.AccAddress(priv.PubKey().Address())}
}

func newApp(db dbm.DB, home string) *elysapp.ElysApp {
	appOptions := make(simtestutil.AppOptionsMap, 0)
	appOptions[flags.FlagHome] = home
	appOptions[server.FlagInvCheckPeriod] = 0
	return elysapp.NewElysApp(log.NewNopLogger(), db, nil, true, map[int64]bool{}, home, appOptions,
		baseapp.SetChainID(ChainID))
}

func workDir() string {
	d := os.Getenv("VERIF_WORK")
	if d == "" {
		d = "/verif/.work/tmp"
	}
	_ = os.MkdirAll(d, 0o755)
	return d
}

// NewWorld builds genesis deterministically from the scenario and runs InitChain
// plus the first (empty) block.
func NewWorld(sc Scenario) *World { return NewWorldOn(sc, "") }

// NewWorldOn: diskDir == "" keeps the state in an in-memory database; otherwise the application
// database is a goleveldb directory under diskDir (closed and re-opened by Restart, like a real node).
func NewWorldOn(sc Scenario, diskDir string) *World {
	w := &World{Scenario: sc, ByAddr: map[string]*Account{}}
	w.homeDir = workDir()
	if diskDir == "" {
		w.DB = dbm.NewMemDB()
	} else {
		db, err := dbm.NewGoLevelDB("application", diskDir, nil)
		if err != nil {
			panic(fmt.Errorf("harness: open goleveldb in %s: %w", diskDir, err))
		}
		w.DB, w.diskDir = db, diskDir
	}
	w.App = newApp(w.DB, w.homeDir)
	for i := 0; i < sc.NumUsers; i++ {
		w.Accounts = append(w.Accounts, mkAccount(fmt.Sprintf("user%d", i)))
	}
	w.Feeder = mkAccount("feeder")
	w.Bot = mkAccount("bot")
	w.Admin = mkAccount("admin")
	w.Delegator = mkAccount("delegator")
	for i := 0; i < 3; i++ {
		w.Sinks = append(w.Sinks, mkAccount(fmt.Sprintf("sink%d", i)))
	}
	w.Genesis, w.ValHash = w.buildGenesis()
	w.initChain()
	return w
}

func (w *World) AllKeyed() []*Account {
	out := append([]*Account{}, w.Accounts...)
	return append(out, w.Feeder, w.Bot, w.Admin, w.Delegator)
}

func (w *World) buildGenesis() ([]byte, []byte) {
	app := w.App
	cdc := app.AppCodec()
	sc := w.Scenario
	valPriv := ed25519.GenPrivKeyFromSecret([]byte("verif-validator"))
	validator := cmttypes.NewValidator(mustTmPub(valPriv), 1)
	valSet := cmttypes.NewValidatorSet([]*cmttypes.Validator{validator})

	gs := elysapp.NewDefaultGenesisState(app, cdc)

	// asset profile entries
	genAP := atypes.DefaultGenesis()
	for _, d := range sc.Denoms {
		dec := uint64(6)
		genAP.EntryList = append(genAP.EntryList, atypes.Entry{
			BaseDenom: d, Denom: d, Decimals: dec, DisplayName: displayOf(d),
			CommitEnabled: true, WithdrawEnabled: true,
			Authority: GovAddr(),
		})
	}
	for _, d := range []string{ptypes.Eden, ptypes.EdenB} {
		genAP.EntryList = append(genAP.EntryList, atypes.Entry{BaseDenom: d, Denom: d, Decimals: 6, DisplayName: d,
			CommitEnabled: true, WithdrawEnabled: true, Authority: GovAddr()})
	}
	gs[atypes.ModuleName] = cdc.MustMarshalJSON(genAP)

	// accounts & balances
	fund, ok := sdkmath.NewIntFromString(sc.FundAmount)
	if !ok {
		panic("bad fund amount")
	}
	var genAccs []authtypes.GenesisAccount
	var balances []banktypes.Balance
	total := sdk.NewCoins()
	delegator := w.Delegator
	keyed := w.AllKeyed() // the delegator is the last keyed account
	for i, a := range keyed {
		a.Num = uint64(i)
		w.ByAddr[a.Addr.String()] = a
		genAccs = append(genAccs, authtypes.NewBaseAccount(a.Addr, nil, uint64(i), 0))
		coins := sdk.NewCoins()
		for _, d := range sc.Denoms {
			coins = coins.Add(sdk.NewCoin(d, fund))
		}
		if sc.ModestUser && len(w.Accounts) > 0 && a == w.Accounts[len(w.Accounts)-1] {
			usdc, ok := sdkmath.NewIntFromString(sc.ModestUSDC)
			if !ok {
				panic("bad modest_usdc")
			}
			coins = sdk.NewCoins()
			for _, d := range sc.Denoms {
				switch d {
				case ptypes.BaseCurrency:
					coins = coins.Add(sdk.NewCoin(d, usdc))
				case ptypes.ATOM:
					coins = coins.Add(sdk.NewCoin(d, sdkmath.NewInt(100_000_000)))
				default:
					coins = coins.Add(sdk.NewCoin(d, sdkmath.NewInt(1_000_000_000)))
				}
			}
		}
		balances = append(balances, banktypes.Balance{Address: a.Addr.String(), Coins: coins})
		total = total.Add(coins...)
	}
	for i, a := range w.Sinks {
		a.Num = uint64(len(keyed) + i)
		w.ByAddr[a.Addr.String()] = a
		genAccs = append(genAccs, authtypes.NewBaseAccount(a.Addr, nil, a.Num, 0))
	}
	gs[authtypes.ModuleName] = cdc.MustMarshalJSON(authtypes.NewGenesisState(authtypes.DefaultParams(), genAccs))

	// staking (kept like the repo's test genesis: one bonded validator)
	bondAmt := sdk.DefaultPowerReduction
	pk, _ := cryptocodec.FromTmPubKeyInterface(validator.PubKey)
	pkAny, _ := codectypes.NewAnyWithValue(pk)
	sval := stakingtypes.Validator{
		OperatorAddress: sdk.ValAddress(validator.Address).String(), ConsensusPubkey: pkAny,
		Status: stakingtypes.Bonded, Tokens: bondAmt, DelegatorShares: sdkmath.LegacyOneDec(),
		UnbondingTime:     time.Unix(0, 0).UTC(),
		Commission:        stakingtypes.NewCommission(sdkmath.LegacyNewDecWithPrec(5, 2), sdkmath.LegacyNewDecWithPrec(10, 2), sdkmath.LegacyNewDecWithPrec(10, 2)),
		MinSelfDelegation: sdkmath.OneInt(),
	}
	w.ValAddr = sdk.ValAddress(validator.Address).String()
	sparams := stakingtypes.DefaultParams()
	sparams.BondDenom = ptypes.Elys
	deleg := stakingtypes.NewDelegation(delegator.Addr.String(), sdk.ValAddress(validator.Address).String(), sdkmath.LegacyOneDec())
	gs[stakingtypes.ModuleName] = cdc.MustMarshalJSON(stakingtypes.NewGenesisState(sparams, []stakingtypes.Validator{sval}, []stakingtypes.Delegation{deleg}))
	balances = append(balances, banktypes.Balance{
		Address: authtypes.NewModuleAddress(stakingtypes.BondedPoolName).String(),
		Coins:   sdk.Coins{sdk.NewCoin(ptypes.Elys, bondAmt)},
	})
	total = total.Add(sdk.NewCoin(ptypes.Elys, bondAmt))
	metas := []banktypes.Metadata{}
	for _, d := range sc.BurnDenoms {
		metas = append(metas, banktypes.Metadata{Description: d, Base: d, Display: d, Name: d, Symbol: strings.ToUpper(d),
			DenomUnits: []*banktypes.DenomUnit{{Denom: d, Exponent: 0}}})
	}
	gs[banktypes.ModuleName] = cdc.MustMarshalJSON(banktypes.NewGenesisState(banktypes.DefaultGenesisState().Params, balances, total, metas, []banktypes.SendEnabled{}))
	if sc.BurnEpoch != "" {
		gs[burnertypes.ModuleName] = cdc.MustMarshalJSON(&burnertypes.GenesisState{Params: burnertypes.Params{EpochIdentifier: sc.BurnEpoch}})
	}

	// consumer (ICS) genesis with a fixed timestamp
	pub, _ := validator.ToProto()
	initVal := []abci.ValidatorUpdate{{Power: validator.VotingPower, PubKey: pub.PubKey}}
	vals, err := cmttypes.PB2TM.ValidatorUpdates(initVal)
	if err != nil {
		panic(err)
	}
	cg := elysapp.CreateMinimalConsumerTestGenesis()
	cg.Provider.ConsensusState.Timestamp = GenesisTime
	cg.Provider.InitialValSet = initVal
	cg.Provider.ConsensusState.NextValidatorsHash = cmttypes.NewValidatorSet(vals).Hash()
	cg.Params.Enabled = true
	gs[consumertypes.ModuleName] = cdc.MustMarshalJSON(cg)

	// governance: proposals are real (submitted and voted by the delegator, executed by the gov end-blocker); the
	// voting period is a few seconds so that a proposal is tallied one or two blocks after its submission
	govGen := govv1.DefaultGenesisState()
	vp, evp, dp := GovVotingPeriod, GovVotingPeriod/3, 48*time.Hour
	govGen.Params.VotingPeriod, govGen.Params.ExpeditedVotingPeriod, govGen.Params.MaxDepositPeriod = &vp, &evp, &dp
	govGen.Params.MinDeposit = sdk.NewCoins(sdk.NewCoin(ptypes.Elys, sdkmath.NewInt(GovMinDeposit)))
	govGen.Params.ExpeditedMinDeposit = sdk.NewCoins(sdk.NewCoin(ptypes.Elys, sdkmath.NewInt(2*GovMinDeposit)))
	govGen.Params.Quorum = "0.000001" // users may out-stake the genesis delegation; they never vote
	gs[govtypes.ModuleName] = cdc.MustMarshalJSON(govGen)

	// amm params
	ammGen := ammtypes.DefaultGenesis()
	ammGen.Params.AllowedPoolCreators = []string{GovAddr(), w.Admin.Addr.String()}
	ammGen.Params.BaseAssets = []string{ptypes.BaseCurrency}
	gs[ammtypes.ModuleName] = cdc.MustMarshalJSON(ammGen)

	// oracle params
	oGen := oracletypes.DefaultGenesis()
	oGen.Params.LifeTimeInBlocks = sc.OracleLifeBlocks
	oGen.Params.PriceExpiryTime = sc.OracleExpirySecs
	gs[oracletypes.ModuleName] = cdc.MustMarshalJSON(oGen)

	// commitment: short vesting schedule, vest-now enabled, users start with claimed Eden/EdenB
	cGen := ctypes.DefaultGenesis()
	cGen.Params.EnableVestNow = true
	cGen.Params.VestingInfos = []ctypes.VestingInfo{{BaseDenom: ptypes.Eden, VestingDenom: ptypes.Elys, NumBlocks: sc.VestBlocks,
		VestNowFactor: sdkmath.NewInt(sc.VestNowFactor), NumMaxVestings: sc.MaxVestings},
		// liquid vesting of an externally issued token (MsgVestLiquid): deposited, released linearly, never minted
		{BaseDenom: "uusdt", VestingDenom: "uusdt", NumBlocks: sc.VestBlocks / 2, VestNowFactor: sdkmath.NewInt(sc.VestNowFactor), NumMaxVestings: sc.MaxVestings}}
	if ce, ok := sdkmath.NewIntFromString(sc.ClaimedEden); ok && ce.IsPositive() {
		for _, a := range w.Accounts {
			cGen.Commitments = append(cGen.Commitments, &ctypes.Commitments{Creator: a.Addr.String(),
				Claimed: sdk.NewCoins(sdk.NewCoin(ptypes.Eden, ce), sdk.NewCoin(ptypes.EdenB, ce))})
		}
	}
	gs[ctypes.ModuleName] = cdc.MustMarshalJSON(cGen)

	bz, err := json.Marshal(gs)
	if err != nil {
		panic(err)
	}
	return bz, valSet.Hash()
}

func displayOf(denom string) string {
	switch denom {
	case ptypes.Elys:
		return "ELYS"
	case ptypes.BaseCurrency:
		return "USDC"
	case ptypes.ATOM:
		return "ATOM"
	case "uusdt":
		return "USDT"
	}
	return denom
}

func (w *World) initChain() {
	_, err := w.App.InitChain(&abci.RequestInitChain{
		ChainId:         ChainID,
		Time:            GenesisTime,
		Validators:      []abci.ValidatorUpdate{},
		ConsensusParams: simtestutil.DefaultConsensusParams,
		AppStateBytes:   w.Genesis,
		InitialHeight:   1,
	})
	if err != nil {
		panic(fmt.Errorf("InitChain: %w", err))
	}
	w.Height = 0
	w.Time = GenesisTime
	w.EndBlock(time.Second)
	if w.BlockErr != nil {
		panic(fmt.Errorf("first block: %w", w.BlockErr))
	}
}

func mustTmPub(p *ed25519.PrivKey) cmtPubKey {
	pk, err := cryptocodec.ToCmtPubKeyInterface(p.PubKey())
	if err != nil {
		panic(err)
	}
	return pk
}

// Header returns the header the next block will have.
func (w *World) nextHeader(gap time.Duration) cmtproto.Header {
	return cmtproto.Header{ChainID: ChainID, Height: w.Height + 1, Time: w.Time.Add(gap)}
}

// SetupCtx is an uncached context over the working (deliverState-free) store for
// genesis-equivalent setup between blocks; writes land in the next Commit.
func (w *World) SetupCtx() sdk.Context {
	return w.App.NewUncachedContext(false, cmtproto.Header{ChainID: ChainID, Height: w.Height, Time: w.Time}).
		WithBlockGasMeter(noGas()).WithGasMeter(noGas())
}

// ReadCtx is a read-only branch of the committed state at the last height.
func (w *World) ReadCtx() sdk.Context {
	ctx := w.App.NewUncachedContext(false, cmtproto.Header{ChainID: ChainID, Height: w.Height, Time: w.Time}).
		WithBlockGasMeter(noGas()).WithGasMeter(noGas())
	cctx, _ := ctx.CacheContext()
	return cctx
}

// Sign builds a signed transaction for one message. Sequence is taken from and
// advanced in the harness' own account table.
func (w *World) Sign(acc *Account, fee sdk.Coins, gas uint64, msgs ...sdk.Msg) ([]byte, error) {
	txCfg := w.App.TxConfig()
	b := txCfg.NewTxBuilder()
	if err := b.SetMsgs(msgs...); err != nil {
		return nil, err
	}
	b.SetGasLimit(gas)
	b.SetFeeAmount(fee)
	return signTx(txCfg, b, acc)
}

func signTx(txCfg client.TxConfig, b client.TxBuilder, acc *Account) ([]byte, error) {
	mode := signing.SignMode_SIGN_MODE_DIRECT
	sig := signing.SignatureV2{
		PubKey:   acc.Priv.PubKey(),
		Data:     &signing.SingleSignatureData{SignMode: mode},
		Sequence: acc.Seq,
	}
	if err := b.SetSignatures(sig); err != nil {
		return nil, err
	}
	sd := authsigning.SignerData{ChainID: ChainID, AccountNumber: acc.Num, Sequence: acc.Seq,
		PubKey: acc.Priv.PubKey(), Address: acc.Addr.String()}
	bytesToSign, err := authsigning.GetSignBytesAdapter(sdk.Context{}.Context(), txCfg.SignModeHandler(), mode, sd, b.GetTx())
	if err != nil {
		return nil, err
	}
	s, err := acc.Priv.Sign(bytesToSign)
	if err != nil {
		return nil, err
	}
	sig.Data = &signing.SingleSignatureData{SignMode: mode, Signature: s}
	if err := b.SetSignatures(sig); err != nil {
		return nil, err
	}
	return txCfg.TxEncoder()(b.GetTx())
}

var DefaultFee = sdk.NewCoins(sdk.NewInt64Coin(ptypes.Elys, 1000))

const DefaultGas = 20_000_000

// Submit queues a signed tx with the default fee into the pending block.
func (w *World) Submit(acc *Account, msg sdk.Msg) {
	w.SubmitFee(acc, DefaultFee, msg)
}

func (w *World) SubmitFee(acc *Account, fee sdk.Coins, msg sdk.Msg) {
	w.SubmitMultiFee(acc, fee, msg)
}

// SubmitMultiFee queues ONE signed transaction carrying all the messages (atomic: they succeed together or the
// whole tx is rolled back).
func (w *World) SubmitMultiFee(acc *Account, fee sdk.Coins, msgs ...sdk.Msg) {
	bz, err := w.Sign(acc, fee, DefaultGas, msgs...)
	if err != nil {
		panic(fmt.Errorf("sign: %w", err))
	}
	for i, msg := range msgs {
		js, _ := w.App.AppCodec().MarshalInterfaceJSON(msg)
		rec := TxRecord{Signer: acc.Name, MsgType: sdk.MsgTypeURL(msg), MsgJSON: string(js), Msg: msg}
		if i == 0 {
			rec.Fee, rec.Bytes = fee.String(), bz
		} else {
			rec.Fee, rec.JoinPrev = "", true
		}
		w.Pending = append(w.Pending, rec)
	}
	acc.Seq++ // optimistic; corrected after the block from committed state
}

// EndBlock executes the pending txs in one block: FinalizeBlock + Commit.
// A returned error or a panic is captured in w.BlockErr (C18's observation).
func (w *World) EndBlock(gap time.Duration) *BlockRecord {
	hdr := w.nextHeader(gap)
	var txs [][]byte
	for _, p := range w.Pending {
		if !p.JoinPrev {
			txs = append(txs, p.Bytes)
		}
	}
	rec := BlockRecord{Height: hdr.Height, Time: hdr.Time, Txs: w.Pending}
	w.Pending = nil
	var resp *abci.ResponseFinalizeBlock
	if blockHung.Load() {
		// an earlier block of this process never returned (its goroutine is still spinning): nothing further can be
		// executed meaningfully; every later attempt reports the same
		w.BlockErr = fmt.Errorf("FinalizeBlock did not return within %s at an earlier height (block processing does not terminate)", blockDeadline())
		w.Blocks = append(w.Blocks, rec)
		return &w.Blocks[len(w.Blocks)-1]
	}
	done := make(chan struct{})
	go func() {
		defer close(done)
		defer func() {
			if r := recover(); r != nil {
				w.BlockErr = fmt.Errorf("PANIC in FinalizeBlock/Commit at height %d: %v\n%s", hdr.Height, r, trimStack(debug.Stack()))
			}
		}()
		var err error
		resp, err = w.App.FinalizeBlock(&abci.RequestFinalizeBlock{
			Height: hdr.Height, Time: hdr.Time, Txs: txs,
			Hash: w.App.LastCommitID().Hash, NextValidatorsHash: w.ValHash,
		})
		if err != nil {
			w.BlockErr = fmt.Errorf("FinalizeBlock height %d: %w", hdr.Height, err)
			w.BlockErrStack = fmt.Sprintf("%+v", err)
			return
		}
		if _, err = w.App.Commit(); err != nil {
			w.BlockErr = fmt.Errorf("Commit height %d: %w", hdr.Height, err)
		}
	}()
	// a block normally takes milliseconds; one that has not returned after minutes never will (a loop that makes no
	// progress in a begin/end blocker halts the chain just like a panic does)
	select {
	case <-done:
	case <-time.After(blockDeadline()):
		blockHung.Store(true)
		w.BlockErr = fmt.Errorf("FinalizeBlock did not return within %s at height %d (block processing does not terminate)", blockDeadline(), hdr.Height)
		w.Blocks = append(w.Blocks, rec)
		return &w.Blocks[len(w.Blocks)-1]
	}
	if w.BlockErr != nil {
		w.Blocks = append(w.Blocks, rec)
		return &w.Blocks[len(w.Blocks)-1]
	}
	w.Height = hdr.Height
	w.Time = hdr.Time
	ri := -1
	for i := range rec.Txs {
		if !rec.Txs[i].JoinPrev {
			ri++
		}
		r := resp.TxResults[ri]
		rec.Txs[i].Code = r.Code
		if r.Code != 0 {
			rec.Txs[i].Log = r.Log
		}
		if rec.Txs[i].JoinPrev {
			continue
		}
		rec.Txs[i].GasUsed = r.GasUsed
		rec.Txs[i].Events = r.Events
		rec.Txs[i].Data = r.Data
	}
	rec.Events = resp.Events
	rec.AppHash = resp.AppHash
	w.Blocks = append(w.Blocks, rec)
	w.resyncSequences()
	return &w.Blocks[len(w.Blocks)-1]
}

var blockHung atomic.Bool

// blockDeadline: 300 s (four to five orders of magnitude above a normal block, also on a loaded machine); the
// trace shrinker, which re-executes many candidates, uses 30 s.
func blockDeadline() time.Duration {
	if os.Getenv("VERIF_SHRINK") != "" {
		return 30 * time.Second
	}
	return time.Duration(envInt("VERIF_BLOCK_DEADLINE_S", 300)) * time.Second
}

func trimStack(b []byte) string {
	s := string(b)
	if len(s) > 6000 {
		s = s[:6000]
	}
	return s
}

// resyncSequences re-reads account sequences from committed state (a tx that
// fails in the ante handler does not consume its sequence).
func (w *World) resyncSequences() {
	ctx := w.ReadCtx()
	for _, a := range w.AllKeyed() {
		if acc := w.App.AccountKeeper.GetAccount(ctx, a.Addr); acc != nil {
			a.Seq = acc.GetSequence()
			a.Num = acc.GetAccountNumber()
		}
	}
}

// LastBlock returns the most recent block record.
func (w *World) LastBlock() *BlockRecord {
	if len(w.Blocks) == 0 {
		return nil
	}
	return &w.Blocks[len(w.Blocks)-1]
}

func sortedKeys[V any](m map[string]V) []string {
	ks := make([]string, 0, len(m))
	for k := range m {
		ks = append(ks, k)
	}
	sort.Strings(ks)
	return ks
}

// Restart discards the application object and rebuilds it from the same database,
// as a node that was stopped after the last commit and started again.
func (w *World) Restart() error {
	if w.diskDir != "" {
		// a stopped node: the process' handle on the database is gone, everything comes back from the files
		if err := w.DB.Close(); err != nil {
			return fmt.Errorf("restart: close db: %w", err)
		}
		db, err := dbm.NewGoLevelDB("application", w.diskDir, nil)
		if err != nil {
			return fmt.Errorf("restart: reopen db: %w", err)
		}
		w.DB = db
	}
	w.App = newApp(w.DB, w.homeDir)
	if got := w.App.LastBlockHeight(); got != w.Height {
		return fmt.Errorf("restart: app loaded height %d, expected %d", got, w.Height)
	}
	return nil
}
