package harness

import (
	"fmt"
	"strings"

	sdkmath "cosmossdk.io/math"
	sdk "github.com/cosmos/cosmos-sdk/types"

	ammtypes "github.com/elys-network/elys/x/amm/types"
	ptypes "github.com/elys-network/elys/x/parameter/types"
	perptypes "github.com/elys-network/elys/x/perpetual/types"
	tstypes "github.com/elys-network/elys/x/tradeshield/types"
)

// ---------------------------------------------------------------- C20
//
// Owners (users 0..2) do nothing but tradeshield operations, at most one tx per block; the bot
// sends MsgExecuteOrders; the feeder moves prices only in blocks without execution requests;
// other users trade normally.

const c20Owners = 3

func c20ExtraOps(h *History, g *G) []*Op {
	var out []*Op
	h.Ext["c20-exec-planned"] = false
	for i := 0; i < c20Owners; i++ {
		g.Busy[h.W.Accounts[i].Addr.String()] = true
	}
	s := g.S
	mine := func(addr string) (spot []tstypes.SpotOrder, perp []tstypes.PerpetualOrder) {
		for _, o := range s.SpotOrders {
			if o.OwnerAddress == addr {
				spot = append(spot, o)
			}
		}
		for _, o := range s.PerpOrders {
			if o.OwnerAddress == addr {
				perp = append(perp, o)
			}
		}
		return
	}
	for i := 0; i < c20Owners; i++ {
		if g.Int("c20/act", 0, 2) == 0 {
			continue
		}
		u := h.W.Accounts[i]
		spot, perp := mine(u.Addr.String())
		var op *Op
		switch g.Int("c20/op", 0, 9) {
		case 0, 1, 2:
			g.Busy[u.Addr.String()] = false
			op = genSpotOrderCreateFor(g, u)
			g.Busy[u.Addr.String()] = true
		case 3, 4:
			op = genPerpOrderCreateFor(g, u)
		case 5:
			if len(spot) > 0 {
				o := spot[g.Pick("c20/so", len(spot))]
				np := o.OrderPrice
				np.Rate = np.Rate.MulInt64(int64(g.Int("c20/uprate", 50, 150))).QuoInt64(100)
				op = &Op{Signer: u, Kind: "c20.update_spot", Msg: &tstypes.MsgUpdateSpotOrder{OwnerAddress: u.Addr.String(), OrderId: o.OrderId, OrderPrice: np}}
			}
		case 6:
			if len(perp) > 0 {
				o := perp[g.Pick("c20/po", len(perp))]
				np := o.TriggerPrice
				np.Rate = np.Rate.MulInt64(int64(g.Int("c20/uprate", 80, 120))).QuoInt64(100)
				np.TradingAssetDenom = g.trigDenom(np.TradingAssetDenom)
				op = &Op{Signer: u, Kind: "c20.update_perp", Msg: &tstypes.MsgUpdatePerpetualOrder{OwnerAddress: u.Addr.String(), OrderId: o.OrderId, TriggerPrice: np}}
			}
		case 7:
			if len(spot) > 0 {
				o := spot[g.Pick("c20/so", len(spot))]
				if g.Bool("c20/multi") {
					ids := []uint64{o.OrderId}
					for _, o2 := range spot {
						if o2.OrderId != o.OrderId && g.Bool("c20/more") {
							ids = append(ids, o2.OrderId)
						}
					}
					if g.Int("c20/dup", 0, 4) == 0 {
						ids = append(ids, ids[0])
					}
					op = &Op{Signer: u, Kind: "c20.cancel_spot", Msg: &tstypes.MsgCancelSpotOrders{Creator: u.Addr.String(), SpotOrderIds: ids}}
				} else {
					op = &Op{Signer: u, Kind: "c20.cancel_spot", Msg: &tstypes.MsgCancelSpotOrder{OwnerAddress: u.Addr.String(), OrderId: o.OrderId}}
				}
			}
		case 8:
			if len(perp) > 0 {
				o := perp[g.Pick("c20/po", len(perp))]
				if g.Bool("c20/multi") {
					ids := []uint64{o.OrderId}
					for _, o2 := range perp {
						if o2.OrderId != o.OrderId && g.Bool("c20/more") {
							ids = append(ids, o2.OrderId)
						}
					}
					if g.Int("c20/dup", 0, 4) == 0 {
						ids = append(ids, ids[0])
					}
					op = &Op{Signer: u, Kind: "c20.cancel_perp", Msg: &tstypes.MsgCancelPerpetualOrders{OwnerAddress: u.Addr.String(), OrderIds: ids}}
				} else {
					op = &Op{Signer: u, Kind: "c20.cancel_perp", Msg: &tstypes.MsgCancelPerpetualOrder{OwnerAddress: u.Addr.String(), OrderId: o.OrderId}}
				}
			}
		default:
			// attack: update/cancel somebody else's order
			var others []uint64
			for _, o := range s.SpotOrders {
				if o.OwnerAddress != u.Addr.String() {
					others = append(others, o.OrderId)
				}
			}
			if len(others) > 0 {
				id := others[g.Pick("c20/victim", len(others))]
				op = &Op{Signer: u, Kind: "c20.attack_cancel_spot", Msg: &tstypes.MsgCancelSpotOrder{OwnerAddress: u.Addr.String(), OrderId: id}}
			}
		}
		if op != nil {
			out = append(out, op)
		}
	}
	// An order whose rate sits within a thousandth of the market is worth an execution request while it still
	// does (the next swap on a pool-priced asset moves the market away from it).
	if table, ok := h.Ext["c20-market"].(map[string]c20Ref); ok && !g.Busy[h.W.Bot.Addr.String()] {
		var hair []uint64
		for _, o := range s.SpotOrders {
			if ref, ok := table[o.OrderPrice.BaseDenom+"/"+o.OrderPrice.QuoteDenom]; ok && len(ref.Cands) > 0 && o.OrderPrice.Rate.IsPositive() {
				if d := ref.Cands[0].Sub(o.OrderPrice.Rate).Abs(); d.LTE(o.OrderPrice.Rate.Mul(sdkmath.LegacyNewDecWithPrec(1, 3))) {
					hair = append(hair, o.OrderId)
				}
			}
		}
		if len(hair) > 0 && g.Int("c20/hairexec", 0, 2) > 0 {
			h.Labels["c20-hairline-execution-requests"]++
			g.Busy[h.W.Bot.Addr.String()] = true
			h.Ext["c20-exec-planned"] = true // no price feed may share the block (see c20Filter)
			out = append(out, &Op{Signer: h.W.Bot, Kind: "c20.execute_hairline", Msg: &tstypes.MsgExecuteOrders{Creator: h.W.Bot.Addr.String(), SpotOrderIds: hair}})
		}
	}
	// A pool-priced market moves inside a block. When an order on such an asset is just inside its trigger, somebody
	// joins the pricing pool single-sidedly with enough to push the market back out of it, and – in the same block, before
	// or after that join – the bot asks for the order's execution. Executed after the join, the request must leave the
	// order alone.
	if table, ok := h.Ext["c20-market"].(map[string]c20Ref); ok && h.W.Scenario.PoolPricedElys && !g.Busy[h.W.Bot.Addr.String()] && g.Int("c20/moveexec?", 0, 1) == 0 {
		for _, o := range s.SpotOrders {
			ref, ok := table[o.OrderPrice.BaseDenom+"/"+o.OrderPrice.QuoteDenom]
			if !ok || !ref.PoolPriced || len(ref.Cands) != 1 || !o.OrderPrice.Rate.IsPositive() || o.OrderPrice.QuoteDenom != ptypes.BaseCurrency {
				continue
			}
			lte := o.OrderType != tstypes.SpotOrderType_LIMITSELL
			if ref.verdict(o.OrderPrice.Rate, lte) != "true" {
				continue
			}
			margin := ref.Cands[0].Sub(o.OrderPrice.Rate).Abs().Quo(o.OrderPrice.Rate)
			if margin.GT(sdkmath.LegacyNewDecWithPrec(5, 2)) {
				continue
			}
			var pool *ammtypes.Pool
			for i := range s.Pools {
				p := &s.Pools[i]
				if !p.PoolParams.UseOracle && reserveOf(p, o.OrderPrice.BaseDenom).IsPositive() && reserveOf(p, ptypes.BaseCurrency).IsPositive() {
					pool = p
					break
				}
			}
			var joiner *Account
			for _, a := range h.W.Accounts[c20Owners:] {
				if !g.Busy[a.Addr.String()] {
					joiner = a
				}
			}
			if pool == nil || joiner == nil {
				break
			}
			// market <= rate holds: push the price up by adding base currency; market >= rate holds: push it down by adding the asset
			denom := ptypes.BaseCurrency
			if !lte {
				denom = o.OrderPrice.BaseDenom
			}
			x := margin.MulInt64(3).Add(sdkmath.LegacyNewDecWithPrec(int64(g.Int("c20/movepct", 1, 5)), 2))
			amt := x.MulInt(reserveOf(pool, denom)).TruncateInt()
			if !amt.IsPositive() {
				break
			}
			g.Busy[joiner.Addr.String()], g.Busy[h.W.Bot.Addr.String()] = true, true
			h.Ext["c20-exec-planned"] = true
			h.Labels["c20-move-then-execute-scenarios"]++
			out = append(out,
				&Op{Signer: joiner, Kind: "c20.move_market_join", Msg: &ammtypes.MsgJoinPool{Sender: joiner.Addr.String(), PoolId: pool.PoolId, MaxAmountsIn: sdk.NewCoins(sdk.NewCoin(denom, amt)), ShareAmountOut: sdkmath.OneInt()}},
				&Op{Signer: h.W.Bot, Kind: "c20.execute_after_move", Msg: &tstypes.MsgExecuteOrders{Creator: h.W.Bot.Addr.String(), SpotOrderIds: []uint64{o.OrderId}}})
			break
		}
	}
	return out
}

func genSpotOrderCreateFor(g *G, u *Account) *Op {
	op := genSpotOrderCreate(g)
	if op == nil {
		return nil
	}
	m := op.Msg.(*tstypes.MsgCreateSpotOrder)
	if m.OrderType == tstypes.SpotOrderType_MARKETBUY {
		m.OrderType = tstypes.SpotOrderType_LIMITBUY
	}
	m.OwnerAddress = u.Addr.String()
	return &Op{Signer: u, Kind: "c20.create_spot", Msg: m}
}

func genPerpOrderCreateFor(g *G, u *Account) *Op {
	g.Busy[u.Addr.String()] = false
	defer func() { g.Busy[u.Addr.String()] = true }()
	op := genPerpOrderCreate(g)
	if op == nil {
		return nil
	}
	m := op.Msg.(*tstypes.MsgCreatePerpetualOpenOrder)
	m.OwnerAddress = u.Addr.String()
	return &Op{Signer: u, Kind: "c20.create_perp", Msg: m}
}

// c20Filter: price feeds and execution requests never share a block (so "the price in force" at
// execution is the committed price of the previous block); owners are never used by the grammar.
func c20Filter(h *History, g *G, op *Op) bool {
	hasExec, hasFeed := false, false
	for _, p := range h.W.Pending {
		if strings.HasSuffix(p.MsgType, "MsgExecuteOrders") {
			hasExec = true
		}
		if strings.HasSuffix(p.MsgType, "MsgFeedPrice") || strings.HasSuffix(p.MsgType, "MsgFeedMultiplePrices") {
			hasFeed = true
		}
	}
	if planned, _ := h.Ext["c20-exec-planned"].(bool); planned {
		hasExec = true
	}
	if strings.HasPrefix(op.Kind, "oracle.") && hasExec {
		return false
	}
	if op.Kind == "tradeshield.execute" && hasFeed {
		return false
	}
	return true
}

type ownerHoldings struct {
	Wallet sdk.Coins
	Escrow sdk.Coins
}

func c20Holdings(s *Snapshot, owner string) ownerHoldings {
	h := ownerHoldings{Wallet: s.Bal[owner]}
	for _, o := range s.SpotOrders {
		if o.OwnerAddress == owner {
			h.Escrow = h.Escrow.Add(s.Bal[o.GetOrderAddress().String()]...)
		}
	}
	for _, o := range s.PerpOrders {
		if o.OwnerAddress == owner {
			h.Escrow = h.Escrow.Add(s.Bal[o.GetOrderAddress().String()]...)
		}
	}
	return h
}

// spotTriggered / perpTriggered: the trigger condition at the prices of the given (previous) state,
// computed with the module's own price functions on a read-only context.
func (h *History) c20Triggers() (spot map[uint64]string, perp map[uint64]string) {
	spot, perp = map[uint64]string{}, map[uint64]string{}
	ctx := h.W.ReadCtx()
	k := h.W.App.TradeshieldKeeper
	for _, o := range h.Cur.SpotOrders {
		ref := h.c20RefMarket(ctx, h.Cur, o.OrderPrice.BaseDenom, o.OrderPrice.QuoteDenom)
		v := ref.verdict(o.OrderPrice.Rate, o.OrderType != tstypes.SpotOrderType_LIMITSELL)
		if v == "no-price" {
			spot[o.OrderId] = "no-price"
			continue
		}
		tag := ""
		if ref.PoolPriced {
			tag = ", pool-priced"
			h.Labels["c20-pool-priced-trigger-"+v]++
		}
		// the module's own view, for the record only (it does not decide)
		modv := "n/a"
		if mp, err := k.GetAssetPriceFromDenomInToDenomOut(ctx, o.OrderPrice.BaseDenom, o.OrderPrice.QuoteDenom); err == nil {
			modv = mp.String()
		}
		spot[o.OrderId] = fmt.Sprintf("%s (reference market %v vs rate %s, %s%s; the chain's own price helper says %s)", v, ref.Cands, o.OrderPrice.Rate, o.OrderType, tag, modv)
	}
	for _, o := range h.Cur.PerpOrders {
		mp, err := h.W.App.PerpetualKeeper.GetAssetPrice(ctx, o.TradingAsset)
		if err != nil {
			perp[o.OrderId] = "no-price"
			continue
		}
		ok := false
		switch o.Position {
		case tstypes.PerpetualPosition_LONG:
			ok = mp.LTE(o.TriggerPrice.Rate)
		case tstypes.PerpetualPosition_SHORT:
			ok = mp.GTE(o.TriggerPrice.Rate)
		}
		perp[o.OrderId] = fmt.Sprintf("%v (market %s vs trigger %s, %s)", ok, mp, o.TriggerPrice.Rate, o.Position)
	}
	return
}

func CheckC20(h *History, blk *BlockRecord) []Violation {
	prev, cur := h.Prev, h.Cur
	if prev == nil {
		return nil
	}
	var out []Violation
	// triggers evaluated on the state before this block were stored by the previous call
	spotTrig, _ := h.Ext["c20-spot-trig"].(map[uint64]string)
	perpTrig, _ := h.Ext["c20-perp-trig"].(map[uint64]string)
	prevMarket, _ := h.Ext["c20-market"].(map[string]c20Ref)
	defer func() {
		s, p := h.c20Triggers()
		h.Ext["c20-spot-trig"], h.Ext["c20-perp-trig"] = s, p
		h.Ext["c20-market"] = h.c20MarketTable()
	}()
	curSpot, curPerp := map[uint64]tstypes.SpotOrder{}, map[uint64]tstypes.PerpetualOrder{}
	for _, o := range cur.SpotOrders {
		curSpot[o.OrderId] = o
	}
	for _, o := range cur.PerpOrders {
		curPerp[o.OrderId] = o
	}
	// what the block's txs did
	cancelledSpot, cancelledPerp := map[uint64]string{}, map[uint64]string{}
	updatedSpot, updatedPerp := map[uint64]string{}, map[uint64]string{}
	newSpotRate, newPerpRate := map[uint64]sdkmath.LegacyDec{}, map[uint64]sdkmath.LegacyDec{}
	execNamedSpot, execNamedPerp := map[uint64]bool{}, map[uint64]bool{}
	execIdxSpot := map[uint64]int{}
	feesOf := map[string]sdk.Coins{}
	txCount := map[string]int{}
	for i := range blk.Txs {
		tx := &blk.Txs[i]
		acc := h.W.accountByName(tx.Signer)
		signer := acc.Addr.String()
		txCount[signer]++
		if feeCharged(tx) {
			fee, _ := sdk.ParseCoinsNormalized(tx.Fee)
			feesOf[signer] = feesOf[signer].Add(fee...)
		}
		ownerOfSpot := func(id uint64) string {
			for _, o := range prev.SpotOrders {
				if o.OrderId == id {
					return o.OwnerAddress
				}
			}
			return ""
		}
		ownerOfPerp := func(id uint64) string {
			for _, o := range prev.PerpOrders {
				if o.OrderId == id {
					return o.OwnerAddress
				}
			}
			return ""
		}
		checkOwner := func(kind string, ids []uint64, ownerOf func(uint64) string, cancelled map[uint64]string) {
			// a batch of the signer's own, distinct, pending orders none of which an execution request of this block
			// names is as clear-cut as a single one
			clean := true
			seen := map[uint64]bool{}
			for _, id := range ids {
				if ownerOf(id) != signer || seen[id] || execNamedSpot[id] || execNamedPerp[id] {
					clean = false
				}
				seen[id] = true
			}
			for _, id := range ids {
				owner := ownerOf(id)
				if owner == "" {
					continue
				}
				if owner != signer && tx.Code == 0 {
					out = append(out, Violation{Sig: "C20/foreign-" + kind + "-accepted", Detail: fmt.Sprintf("%s by %s on order %d owned by %s succeeded (height %d)", kind, tx.Signer, id, h.W.nameOf(owner), cur.Height)})
				}
				if owner == signer {
					if tx.Code == 0 && cancelled != nil {
						cancelled[id] = signer
					}
					if tx.Code != 0 && kind == "cancel" && clean && txCount[signer] == 1 {
						out = append(out, Violation{Sig: "C20/owner-cancel-failed", Detail: fmt.Sprintf("%s could not cancel its own pending order %d: %s (height %d; %s)", tx.Signer, id, shorten(tx.Log, 200), cur.Height, blockSummary(blk))})
					}
				}
			}
		}
		switch m := tx.Msg.(type) {
		case *tstypes.MsgCancelSpotOrder:
			checkOwner("cancel", []uint64{m.OrderId}, ownerOfSpot, cancelledSpot)
		case *tstypes.MsgCancelSpotOrders:
			checkOwner("cancel", m.SpotOrderIds, ownerOfSpot, cancelledSpot)
		case *tstypes.MsgCancelPerpetualOrder:
			checkOwner("cancel", []uint64{m.OrderId}, ownerOfPerp, cancelledPerp)
		case *tstypes.MsgCancelPerpetualOrders:
			checkOwner("cancel", m.OrderIds, ownerOfPerp, cancelledPerp)
		case *tstypes.MsgUpdateSpotOrder:
			checkOwner("update", []uint64{m.OrderId}, ownerOfSpot, nil)
			if tx.Code == 0 {
				updatedSpot[m.OrderId] = signer
				newSpotRate[m.OrderId] = m.OrderPrice.Rate
			}
		case *tstypes.MsgUpdatePerpetualOrder:
			checkOwner("update", []uint64{m.OrderId}, ownerOfPerp, nil)
			if tx.Code == 0 {
				updatedPerp[m.OrderId] = signer
				newPerpRate[m.OrderId] = m.TriggerPrice.Rate
			}
		case *tstypes.MsgExecuteOrders:
			if tx.Code == 0 {
				for _, id := range m.SpotOrderIds {
					if !execNamedSpot[id] {
						execIdxSpot[id] = i // the first successful request that names it
					}
					execNamedSpot[id] = true
				}
				for _, id := range m.PerpetualOrderIds {
					execNamedPerp[id] = true
				}
				h.Labels["c20-execute-requests"]++
			}
		}
	}
	// Transactions that move the reserves of a pool holding a given denom *inside* the block (and with them a
	// pool-derived market price): joins / exits / pool creations with that denom, and leveraged or perpetual
	// operations when a leveraged pool holds it. Swaps do not: they are queued and executed after every transaction.
	moversOf := func(denoms ...string) int {
		holds := func(poolID uint64) bool {
			for _, snap := range []*Snapshot{prev, cur} {
				if p := snap.Pool(poolID); p != nil {
					for _, a := range p.PoolAssets {
						for _, d := range denoms {
							if a.Token.Denom == d && d != ptypes.BaseCurrency {
								return true
							}
						}
					}
				}
			}
			return false
		}
		levHolds := false
		for _, lp := range prev.LPPools {
			levHolds = levHolds || holds(lp.AmmPoolId)
		}
		for _, pp := range prev.PerpPools {
			levHolds = levHolds || holds(pp.AmmPoolId)
		}
		n := 0
		for _, tx := range blk.Txs {
			if tx.Code != 0 {
				continue
			}
			switch m := tx.Msg.(type) {
			case *ammtypes.MsgJoinPool:
				if holds(m.PoolId) {
					n++
				}
			case *ammtypes.MsgExitPool:
				if holds(m.PoolId) {
					n++
				}
			case *ammtypes.MsgCreatePool:
				for _, a := range m.PoolAssets {
					for _, d := range denoms {
						if a.Token.Denom == d && d != ptypes.BaseCurrency {
							n++
						}
					}
				}
			default:
				if levHolds && (strings.Contains(tx.MsgType, ".perpetual.") || strings.Contains(tx.MsgType, ".leveragelp.") || strings.Contains(tx.MsgType, ".tradeshield.MsgExecuteOrders")) {
					n++
				}
				if strings.Contains(tx.MsgType, ".amm.") && !strings.Contains(tx.MsgType, "MsgSwap") && !strings.Contains(tx.MsgType, "MsgFeedMultipleExternalLiquidity") {
					n++ // any other amm message (parameter changes and the like): not judged
				}
			}
		}
		return n
	}
	// orders that left the pending set
	executedOwner := map[string]bool{}
	for _, o := range prev.SpotOrders {
		if _, still := curSpot[o.OrderId]; still {
			continue
		}
		if cancelledSpot[o.OrderId] != "" {
			h.Labels["c20-cancelled"]++
			continue
		}
		if !execNamedSpot[o.OrderId] {
			out = append(out, Violation{Sig: "C20/order-vanished", Detail: fmt.Sprintf("spot order %d of %s left the pending set without its owner's cancel or an execution request (height %d; %s)", o.OrderId, h.W.nameOf(o.OwnerAddress), cur.Height, blockSummary(blk))})
			continue
		}
		executedOwner[o.OwnerAddress] = true
		h.Labels["c20-spot-executed"]++
		if r, upd := newSpotRate[o.OrderId]; upd {
			// the owner changed the rate earlier in this block: the condition is judged with the new rate
			h.Labels["c20-executed-after-same-block-update"]++
			if ref, ok := prevMarket[o.OrderPrice.BaseDenom+"/"+o.OrderPrice.QuoteDenom]; ok && !(ref.PoolPriced && moversOf(o.OrderPrice.BaseDenom, o.OrderPrice.QuoteDenom) > 0) {
				if v := ref.verdict(r, o.OrderType != tstypes.SpotOrderType_LIMITSELL); v == "false" {
					out = append(out, Violation{Sig: "C20/executed-without-trigger", Detail: fmt.Sprintf("spot order %d (%s) executed although the reference market %v vs updated rate %s does not satisfy it (height %d)", o.OrderId, o.OrderType, ref.Cands, r, cur.Height)})
				}
			}
		} else if t := spotTrig[o.OrderId]; strings.Contains(t, "pool-priced") && moversOf(o.OrderPrice.BaseDenom, o.OrderPrice.QuoteDenom) > 0 {
			// A pool-derived price moves with every join / exit of the block: the market "in force" is the one after the
			// joins and exits that precede the execution request. They are re-executed on a branch of the previous state.
			idx, have := execIdxSpot[o.OrderId]
			ref, ok := c20Ref{}, false
			if have {
				ref, ok = h.c20RefAtExecution(blk, idx, o.OrderPrice.BaseDenom, o.OrderPrice.QuoteDenom)
			}
			if !ok {
				h.Labels["c20-execution-not-judged(pool-priced)"]++
			} else if v := ref.verdict(o.OrderPrice.Rate, o.OrderType != tstypes.SpotOrderType_LIMITSELL); v == "false" {
				out = append(out, Violation{Sig: "C20/executed-without-trigger", Detail: fmt.Sprintf("spot order %d (%s) was executed although, after the joins and exits that precede the request in its block, the reference market %v does not satisfy its rate %s (at the start of the block: %s) (height %d; %s)", o.OrderId, o.OrderType, ref.Cands, o.OrderPrice.Rate, t, cur.Height, blockSummary(blk))})
			} else {
				h.Labels["c20-execution-judged-after-pool-movers/"+v]++
			}
		} else if strings.HasPrefix(t, "undecided") {
			h.Labels["c20-execution-not-judged(pool-priced)"]++
		} else if !strings.HasPrefix(t, "true") {
			out = append(out, Violation{Sig: "C20/executed-without-trigger", Detail: fmt.Sprintf("spot order %d (%s) was executed although its trigger condition did not hold at the prices in force: %s (height %d)", o.OrderId, o.OrderType, t, cur.Height)})
		}
	}
	for _, o := range prev.PerpOrders {
		if _, still := curPerp[o.OrderId]; still {
			continue
		}
		if cancelledPerp[o.OrderId] != "" {
			h.Labels["c20-cancelled"]++
			continue
		}
		if !execNamedPerp[o.OrderId] {
			out = append(out, Violation{Sig: "C20/order-vanished", Detail: fmt.Sprintf("perpetual order %d of %s left the pending set without its owner's cancel or an execution request (height %d; %s)", o.OrderId, h.W.nameOf(o.OwnerAddress), cur.Height, blockSummary(blk))})
			continue
		}
		executedOwner[o.OwnerAddress] = true
		h.Labels["c20-perp-executed"]++
		if _, upd := newPerpRate[o.OrderId]; upd {
			h.Labels["c20-executed-after-same-block-update"]++
		} else if t := perpTrig[o.OrderId]; !strings.HasPrefix(t, "true") {
			out = append(out, Violation{Sig: "C20/executed-without-trigger", Detail: fmt.Sprintf("perpetual order %d was executed although its trigger condition did not hold at the prices in force: %s (height %d)", o.OrderId, t, cur.Height)})
		}
	}
	// named by an execution request but still pending: skipped or failed attempt
	for id := range execNamedSpot {
		if _, still := curSpot[id]; still {
			h.Labels["c20-attempt-left-order-pending"]++
			h.markAttempted(id, false)
		}
	}
	for id := range execNamedPerp {
		if _, still := curPerp[id]; still {
			h.Labels["c20-attempt-left-order-pending"]++
			h.markAttempted(id, true)
		}
	}
	for id := range cancelledSpot {
		if h.wasAttempted(id, false) {
			h.Labels["c20-cancel-after-failed-or-skipped-attempt"]++
		}
	}
	for id := range cancelledPerp {
		if h.wasAttempted(id, true) {
			h.Labels["c20-cancel-after-failed-or-skipped-attempt"]++
		}
	}
	// still-pending orders are unchanged unless their owner updated them
	for _, o := range prev.SpotOrders {
		if c, still := curSpot[o.OrderId]; still && updatedSpot[o.OrderId] == "" && c.String() != o.String() {
			out = append(out, Violation{Sig: "C20/pending-order-changed", Detail: fmt.Sprintf("spot order %d changed without an update by its owner: %v -> %v (height %d)", o.OrderId, o, c, cur.Height)})
		}
	}
	for _, o := range prev.PerpOrders {
		if c, still := curPerp[o.OrderId]; still && updatedPerp[o.OrderId] == "" && c.String() != o.String() {
			out = append(out, Violation{Sig: "C20/pending-order-changed", Detail: fmt.Sprintf("perpetual order %d changed without an update by its owner (height %d)", o.OrderId, cur.Height)})
		}
	}
	// conservation of wallet + escrow for the dedicated owners
	for i := 0; i < c20Owners; i++ {
		u := h.W.Accounts[i]
		addr := u.Addr.String()
		hb, ha := c20Holdings(prev, addr), c20Holdings(cur, addr)
		// escrow of orders that existed before and were removed in this block is empty afterwards by construction
		before := hb.Wallet.Add(hb.Escrow...)
		after := ha.Wallet.Add(ha.Escrow...).Add(feesOf[addr]...)
		if executedOwner[addr] {
			// executed: per denom the owner may lose at most the amounts of the orders executed in this block
			// (they were traded for the target asset or became the collateral of a position)
			spent := sdk.Coins{}
			for _, o := range prev.SpotOrders {
				if _, still := curSpot[o.OrderId]; !still && o.OwnerAddress == addr && cancelledSpot[o.OrderId] == "" {
					spent = spent.Add(o.OrderAmount)
				}
			}
			for _, o := range prev.PerpOrders {
				if _, still := curPerp[o.OrderId]; !still && o.OwnerAddress == addr && cancelledPerp[o.OrderId] == "" {
					spent = spent.Add(o.Collateral)
				}
			}
			for _, d := range h.W.Scenario.Denoms {
				if after.AmountOf(d).LT(before.AmountOf(d).Sub(spent.AmountOf(d))) {
					out = append(out, Violation{Sig: "C20/executed-owner-lost-more-than-order", Detail: fmt.Sprintf("%s: wallet+escrow of %s went %s -> %s although the orders executed in this block amount to only %s (height %d; %s)", u.Name, d, before.AmountOf(d), after.AmountOf(d), spent.AmountOf(d), cur.Height, blockSummary(blk))})
				}
			}
			continue
		}
		// perpetual limit-open executions convert the escrow into a position: handled by executedOwner.
		// Otherwise the sum is conserved exactly.
		for _, d := range h.W.Scenario.Denoms {
			if !before.AmountOf(d).Equal(after.AmountOf(d)) {
				out = append(out, Violation{Sig: "C20/wallet+escrow-not-conserved", Detail: fmt.Sprintf("%s: wallet+escrow of %s went %s -> %s (fees added back) in a block in which none of its orders was executed (height %d; %s)", u.Name, d, before.AmountOf(d), after.AmountOf(d), cur.Height, blockSummary(blk))})
			}
		}
	}
	// a full cancel returns the escrow: the order's address is empty afterwards
	for id := range cancelledSpot {
		for _, o := range prev.SpotOrders {
			if o.OrderId == id {
				if b := cur.Bal[o.GetOrderAddress().String()]; !b.IsZero() {
					out = append(out, Violation{Sig: "C20/escrow-left-after-cancel", Detail: fmt.Sprintf("spot order %d cancelled but %s stays at its escrow address", id, b)})
				}
			}
		}
	}
	for id := range cancelledPerp {
		for _, o := range prev.PerpOrders {
			if o.OrderId == id {
				if b := cur.Bal[o.GetOrderAddress().String()]; !b.IsZero() {
					out = append(out, Violation{Sig: "C20/escrow-left-after-cancel", Detail: fmt.Sprintf("perpetual order %d cancelled but %s stays at its escrow address", id, b)})
				}
			}
		}
	}
	_ = sdkmath.ZeroInt
	_ = perptypes.ModuleName
	return out
}

func (h *History) markAttempted(id uint64, perp bool) {
	m, _ := h.Ext["c20-attempted"].(map[string]bool)
	if m == nil {
		m = map[string]bool{}
		h.Ext["c20-attempted"] = m
	}
	m[fmt.Sprintf("%v/%d", perp, id)] = true
}

func (h *History) wasAttempted(id uint64, perp bool) bool {
	m, _ := h.Ext["c20-attempted"].(map[string]bool)
	return m[fmt.Sprintf("%v/%d", perp, id)]
}

// c20Ref: the market price of one denom in another, computed by the harness itself – not through the amm /
// tradeshield price helpers the execution path uses: a live oracle price (per base unit) where the asset has one;
// for an asset without a feed, for every constant-product pool that holds it against the base currency, the
// weighted spot ratio of that pool's reserves times the base currency's oracle price. Several pools give several
// candidates (the chain picks "the best" one); a verdict is only drawn when all candidates agree.
type c20Ref struct {
	Cands      []sdkmath.LegacyDec
	PoolPriced bool
}

func (h *History) c20RefUnitPrices(ctx sdk.Context, s *Snapshot, denom string) (out []sdkmath.LegacyDec, poolPriced bool) {
	if p := h.W.App.OracleKeeper.GetAssetPriceFromDenom(ctx, denom); p.IsPositive() {
		return []sdkmath.LegacyDec{p}, false
	}
	if denom == ptypes.BaseCurrency {
		return nil, false
	}
	usdc := h.W.App.OracleKeeper.GetAssetPriceFromDenom(ctx, ptypes.BaseCurrency)
	if !usdc.IsPositive() {
		return nil, true
	}
	for _, p := range s.Pools {
		if p.PoolParams.UseOracle {
			continue
		}
		var a, b *ammtypes.PoolAsset
		for i := range p.PoolAssets {
			switch p.PoolAssets[i].Token.Denom {
			case denom:
				a = &p.PoolAssets[i]
			case ptypes.BaseCurrency:
				b = &p.PoolAssets[i]
			}
		}
		if a == nil || b == nil || !a.Token.Amount.IsPositive() || !b.Token.Amount.IsPositive() || !a.Weight.IsPositive() || !b.Weight.IsPositive() {
			continue
		}
		// units of base currency per unit of denom: (Bb/wb) / (Ba/wa)
		spot := b.Token.Amount.ToLegacyDec().Quo(b.Weight.ToLegacyDec()).Quo(a.Token.Amount.ToLegacyDec().Quo(a.Weight.ToLegacyDec()))
		out = append(out, spot.Mul(usdc))
	}
	return out, true
}

func (h *History) c20RefMarket(ctx sdk.Context, s *Snapshot, base, quote string) c20Ref {
	pb, x := h.c20RefUnitPrices(ctx, s, base)
	pq, y := h.c20RefUnitPrices(ctx, s, quote)
	r := c20Ref{PoolPriced: x || y}
	for _, b := range pb {
		for _, q := range pq {
			if q.IsPositive() {
				r.Cands = append(r.Cands, b.Quo(q))
			}
		}
	}
	return r
}

// verdict: "true" / "false" / "undecided" / "no-price" for a condition market <= rate (lte) or market >= rate.
// Pool-derived candidates within 1e-9 (relative) of the rate are undecided: the chain multiplies and divides by the
// base currency's price on the way, which moves the last digits.
func (r c20Ref) verdict(rate sdkmath.LegacyDec, lte bool) string {
	if len(r.Cands) == 0 {
		return "no-price"
	}
	yes, no := 0, 0
	for _, mp := range r.Cands {
		if r.PoolPriced {
			if d := mp.Sub(rate).Abs(); d.LTE(rate.Abs().Mul(sdkmath.LegacyNewDecWithPrec(1, 9))) {
				return "undecided"
			}
		}
		if (lte && mp.LTE(rate)) || (!lte && mp.GTE(rate)) {
			yes++
		} else {
			no++
		}
	}
	switch {
	case no == 0:
		return "true"
	case yes == 0:
		return "false"
	}
	return "undecided"
}

// c20MarketTable: reference market base/quote for every ordered pair of funded denoms, at the committed state.
func (h *History) c20MarketTable() map[string]c20Ref {
	out := map[string]c20Ref{}
	ctx := h.W.ReadCtx()
	for _, a := range h.W.Scenario.Denoms {
		for _, b := range h.W.Scenario.Denoms {
			out[a+"/"+b] = h.c20RefMarket(ctx, h.Cur, a, b)
		}
	}
	return out
}

// c20RefAtExecution: the reference market for base/quote at the point of transaction execIdx of the block: the previous
// committed state at this block's time, with the block's successful joins and exits before that point re-executed
// through the router. ok == false when something else may have moved the pricing pools (then nothing is judged).
func (h *History) c20RefAtExecution(blk *BlockRecord, execIdx int, base, quote string) (c20Ref, bool) {
	ctx, ok := h.prevStateAtNewTime()
	if !ok {
		return c20Ref{}, false
	}
	for i := 0; i < execIdx && i < len(blk.Txs); i++ {
		tx := blk.Txs[i]
		if tx.Code != 0 {
			continue
		}
		switch tx.Msg.(type) {
		case *ammtypes.MsgJoinPool, *ammtypes.MsgExitPool:
			if err, _ := execMsg(h.W, ctx, tx.Msg); err != nil {
				return c20Ref{}, false
			}
		case *ammtypes.MsgSwapExactAmountIn, *ammtypes.MsgSwapExactAmountOut, *ammtypes.MsgSwapByDenom, *ammtypes.MsgFeedMultipleExternalLiquidity:
			// queued for the end of the block / no reserve change
		default:
			if strings.Contains(tx.MsgType, ".amm.") || strings.Contains(tx.MsgType, ".perpetual.") || strings.Contains(tx.MsgType, ".leveragelp.") {
				return c20Ref{}, false
			}
		}
	}
	snap := &Snapshot{Pools: h.W.App.AmmKeeper.GetAllPool(ctx)}
	return h.c20RefMarket(ctx, snap, base, quote), true
}
