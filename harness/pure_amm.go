package harness

import (
	"fmt"
	"math/big"

	"cosmossdk.io/log"
	sdkmath "cosmossdk.io/math"
	cmtproto "github.com/cometbft/cometbft/proto/tendermint/types"
	sdk "github.com/cosmos/cosmos-sdk/types"
	"pgregory.net/rapid"

	ammtypes "github.com/elys-network/elys/x/amm/types"
	oracletypes "github.com/elys-network/elys/x/oracle/types"
)

// E2: pure AMM math engine. Fake keepers backed by maps; exact references in big.Rat.

type fakeOracle struct{ price map[string]sdkmath.LegacyDec } // per base-unit price by denom

func (f fakeOracle) GetAssetPrice(ctx sdk.Context, asset string) (oracletypes.Price, bool) {
	return oracletypes.Price{}, false
}
func (f fakeOracle) GetAssetPriceFromDenom(ctx sdk.Context, denom string) sdkmath.LegacyDec {
	if p, ok := f.price[denom]; ok {
		return p
	}
	return sdkmath.LegacyZeroDec()
}
func (f fakeOracle) GetPriceFeeder(ctx sdk.Context, feeder sdk.AccAddress) (oracletypes.PriceFeeder, bool) {
	return oracletypes.PriceFeeder{}, false
}

type fakeAccounted struct{ bal map[string]sdkmath.Int }

func (f fakeAccounted) GetAccountedBalance(ctx sdk.Context, poolID uint64, denom string) sdkmath.Int {
	if b, ok := f.bal[denom]; ok {
		return b
	}
	return sdkmath.ZeroInt()
}

func pureCtx() sdk.Context {
	return sdk.NewContext(nil, cmtproto.Header{Height: 10}, false, log.NewNopLogger())
}

func ratFromInt(i sdkmath.Int) *big.Rat { return new(big.Rat).SetInt(i.BigInt()) }
func ratFromDec(d sdkmath.LegacyDec) *big.Rat {
	return new(big.Rat).SetFrac(d.BigInt(), new(big.Int).Exp(big.NewInt(10), big.NewInt(18), nil))
}

func ratPow(r *big.Rat, n int64) *big.Rat {
	num := new(big.Int).Exp(r.Num(), big.NewInt(n), nil)
	den := new(big.Int).Exp(r.Denom(), big.NewInt(n), nil)
	return new(big.Rat).SetFrac(num, den)
}

func gcd64(a, b int64) int64 {
	for b != 0 {
		a, b = b, a%b
	}
	return a
}

// logUniformInt: 10^[lo,hi] with uniform mantissa digits
func logUniformInt(rt *rapid.T, label string, loExp, hiExp int) sdkmath.Int {
	e := loExp + UniformDraw(rt, label+"/exp", hiExp-loExp+1)
	m := 1 + UniformDraw(rt, label+"/m1", 999_999)
	v := new(big.Int).Exp(big.NewInt(10), big.NewInt(int64(e)), nil)
	v.Mul(v, big.NewInt(int64(m)))
	v.Div(v, big.NewInt(100_000))
	if v.Sign() <= 0 {
		v = big.NewInt(1)
	}
	return sdkmath.NewIntFromBigInt(v)
}

// ceilMulFracBig: ceil(x*num/den) in big.Int (no 256-bit limit).
func ceilMulFracBig(x *big.Int, num, den int64) *big.Int {
	n := new(big.Int).Mul(x, big.NewInt(num))
	q, r := new(big.Int).QuoRem(n, big.NewInt(den), new(big.Int))
	if r.Sign() != 0 {
		q.Add(q, big.NewInt(1))
	}
	return q
}

// tolFor: the implementation's fixed-point allowance on an amount drawn from a reserve.
// equal weights (integer power path, exact): 1 + ceil(B*1e-16); unequal weights: additionally
// ceil(B*4e-8) for the power approximation (precision 1e-8 on the power value).
func tolFor(reserve sdkmath.Int, equalWeights bool) *big.Int {
	return tolForBig(reserve.BigInt(), equalWeights)
}

func tolForBig(reserve *big.Int, equalWeights bool) *big.Int {
	t := new(big.Int).Add(big.NewInt(1), ceilMulFracBig(reserve, 1, 10_000_000_000_000_000))
	if !equalWeights {
		t.Add(t, ceilMulFracBig(reserve, 4, 100_000_000))
	}
	return t
}

func mkPool(id uint64, useOracle bool, a, b ammtypes.PoolAsset, fee sdkmath.LegacyDec) ammtypes.Pool {
	assets := []ammtypes.PoolAsset{a, b}
	if assets[0].Token.Denom > assets[1].Token.Denom {
		assets[0], assets[1] = assets[1], assets[0]
	}
	return ammtypes.Pool{PoolId: id, Address: ammtypes.NewPoolAddress(id).String(), RebalanceTreasury: ammtypes.NewPoolRebalanceTreasury(id).String(),
		PoolParams:  ammtypes.PoolParams{SwapFee: fee, UseOracle: useOracle, FeeDenom: "uusdc"},
		TotalShares: sdk.NewCoin(ammtypes.GetPoolShareDenom(id), sdkmath.NewIntWithDecimal(100, 18)),
		PoolAssets:  assets, TotalWeight: a.Weight.Add(b.Weight)}
}

func clonePool(p ammtypes.Pool) ammtypes.Pool {
	c := p
	c.PoolAssets = append([]ammtypes.PoolAsset(nil), p.PoolAssets...)
	return c
}

func setReserve(p *ammtypes.Pool, denom string, amt sdkmath.Int) {
	for i := range p.PoolAssets {
		if p.PoolAssets[i].Token.Denom == denom {
			p.PoolAssets[i].Token.Amount = amt
		}
	}
}

// checkExactIn: out ≤ Bo·(1−(Bi/(Bi+Ai(1−f)))^(wi/wo)) + tol, decided exactly with integer powers.
func checkExactInBound(bi, bo sdkmath.Int, wi, wo int64, fee sdkmath.LegacyDec, ain, out sdkmath.Int) string {
	g := gcd64(wi, wo)
	wi, wo = wi/g, wo/g
	tol := tolFor(bo, wi == wo)
	ainAfterFee := new(big.Rat).Mul(ratFromInt(ain), new(big.Rat).Sub(big.NewRat(1, 1), ratFromDec(fee)))
	r := new(big.Rat).Quo(ratFromInt(bi), new(big.Rat).Add(ratFromInt(bi), ainAfterFee)) // Bi/(Bi+Ai')
	left := new(big.Int).Add(new(big.Int).Sub(bo.BigInt(), out.BigInt()), tol)
	if left.Sign() <= 0 {
		return fmt.Sprintf("exact-in: out %s is not below the reserve %s", out, bo)
	}
	lhs := ratPow(new(big.Rat).Quo(new(big.Rat).SetInt(left), ratFromInt(bo)), wo)
	rhs := ratPow(r, wi)
	if lhs.Cmp(rhs) < 0 {
		return fmt.Sprintf("exact-in pays more than the weighted-product formula allows: reserves in=%s out=%s weights %d:%d fee %s amount in %s -> out %s (allowance %s)", bi, bo, wi, wo, fee, ain, out, tol)
	}
	return ""
}

// checkExactOutBound: in·(1−f) + tol ≥ Bi·((Bo/(Bo−Ao))^(wo/wi) − 1)
func checkExactOutBound(bi, bo sdkmath.Int, wi, wo int64, fee sdkmath.LegacyDec, aout, in sdkmath.Int) string {
	g := gcd64(wi, wo)
	wi, wo = wi/g, wo/g
	inAfterFee := new(big.Rat).Mul(ratFromInt(in), new(big.Rat).Sub(big.NewRat(1, 1), ratFromDec(fee)))
	tol := tolForBig(new(big.Int).Add(bi.BigInt(), in.BigInt()), wi == wo)
	lhsBase := new(big.Rat).Quo(new(big.Rat).Add(new(big.Rat).Add(inAfterFee, new(big.Rat).SetInt(tol)), ratFromInt(bi)), ratFromInt(bi))
	rhsBase := new(big.Rat).Quo(ratFromInt(bo), ratFromInt(bo.Sub(aout)))
	if ratPow(lhsBase, wi).Cmp(ratPow(rhsBase, wo)) < 0 {
		return fmt.Sprintf("exact-out charges less than the weighted-product formula requires: reserves in=%s out=%s weights %d:%d fee %s amount out %s -> in %s (allowance %s)", bi, bo, wi, wo, fee, aout, in, tol)
	}
	return ""
}

