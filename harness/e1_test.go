package harness

import "testing"

func TestC01(t *testing.T)        { RunProfileTest(t, ProfileC01) }
func TestC02(t *testing.T)        { RunProfileTest(t, ProfileC02) }
func TestC06(t *testing.T)        { RunProfileTest(t, ProfileC06) }
func TestC08(t *testing.T)        { RunProfileTest(t, ProfileC08) }
func TestC09(t *testing.T)        { RunProfileTest(t, ProfileC09) }
func TestC11(t *testing.T)        { RunProfileTest(t, ProfileC11) }
func TestC12(t *testing.T)        { RunProfileTest(t, ProfileC12) }
func TestC13(t *testing.T)        { RunProfileTest(t, ProfileC13) }
func TestC15(t *testing.T)        { RunProfileTest(t, ProfileC15) }
func TestC18(t *testing.T)        { RunProfileTest(t, ProfileC18) }
func TestC18Params(t *testing.T)  { RunProfileTest(t, ProfileC18Params) }
func TestC18Staking(t *testing.T) { RunProfileTest(t, ProfileC18Staking) }
func TestC04(t *testing.T)        { RunProfileTest(t, ProfileC04) }
func TestC07Chain(t *testing.T)   { RunProfileTest(t, ProfileC07) }
func TestC05Chain(t *testing.T)   { RunProfileTest(t, ProfileC05) }
func TestC03Chain(t *testing.T)   { RunProfileTest(t, ProfileC03) }
func TestC20(t *testing.T)        { RunProfileTest(t, ProfileC20) }
func TestC10(t *testing.T)        { RunProfileTest(t, ProfileC10) }
