package harness

import "testing"

func TestC01(t *testing.T) { RunProfileTest(t, ProfileC01) }
