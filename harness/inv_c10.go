package harness

import (
	"fmt"
	"strings"

	sdkmath "cosmossdk.io/math"
	sdk "github.com/cosmos/cosmos-sdk/types"

	ammtypes "github.com/elys-network/elys/x/amm/types"
	lptypes "github.com/elys-network/elys/x/leveragelp/types"
	ptypes "github.com/elys-network/elys/x/parameter/types"
	perptypes "github.com/elys-network/elys/x/perpetual/types"
)

// ---------------------------------------------------------------- C10 (history level)
//
// For every position that existed after block h-1 and was altered or removed in block h without
// a successful tx of its owner touching it: it must have been eligible on the h-1 state
// (evaluated on a historical query context moved to block h's time, i.e. with interest accrued),
// with a band δ=1% that absorbs accrual ordering and intra-block pool movement.

var c10Delta = sdkmath.LegacyMustNewDecFromStr("1.01")

// prevCtx: a writable branch of the committed state of height h-1, at block h's height/time.
func (h *History) prevStateAtNewTime() (sdk.Context, bool) {
	ctx, err := h.W.App.CreateQueryContext(h.Prev.Height, false)
	if err != nil {
		return sdk.Context{}, false
	}
	ctx = ctx.WithBlockHeight(h.Cur.Height).WithBlockTime(h.Cur.Time).WithGasMeter(noGas()).WithBlockGasMeter(noGas())
	br, _ := ctx.CacheContext()
	// the rate bookkeeping of the new block (per-block interest / funding rate records) is part of
	// "accrued up to this moment": run the two accrual begin-blockers on the branch (not the
	// leveragelp one, which is the liquidation sweep under test)
	func() {
		defer func() { _ = recover() }()
		h.W.App.StablestakeKeeper.BeginBlocker(br)
		h.W.App.PerpetualKeeper.BeginBlocker(br)
	}()
	h.rederiveAccountedPools(br)
	return br, true
}

// rederiveAccountedPools: "health at that moment" is a statement about what the pool is really worth. The modules
// value a pool through its accounted balances, which by definition are reserve + perpetual liabilities − perpetual
// custody per asset. On the branch the oracle judges eligibility on, those balances are re-derived from that
// definition (from the amm reserves and the perpetual pool record), so that a position is not counted as "eligible"
// merely because some hook left the accounted pool out of date. With a consistent state this writes back what is
// already there.
func (h *History) rederiveAccountedPools(ctx sdk.Context) {
	defer func() { _ = recover() }()
	app := h.W.App
	if app.PerpetualKeeper.GetParams(ctx).EnableTakeProfitCustodyLiabilities {
		return // another definition is in force (see C11)
	}
	for _, ap := range app.AccountedPoolKeeper.GetAllAccountedPool(ctx) {
		amm, found := app.AmmKeeper.GetPool(ctx, ap.PoolId)
		pp, pfound := app.PerpetualKeeper.GetPool(ctx, ap.PoolId)
		if !found || !pfound {
			continue
		}
		differs := false
		for i, tok := range ap.TotalTokens {
			L, C := sdkmath.ZeroInt(), sdkmath.ZeroInt()
			for _, a := range append(append([]perptypes.PoolAsset{}, pp.PoolAssetsLong...), pp.PoolAssetsShort...) {
				if a.AssetDenom == tok.Denom {
					L, C = L.Add(a.Liabilities), C.Add(a.Custody)
				}
			}
			want := reserveOf(&amm, tok.Denom).Add(L).Sub(C)
			if !want.Equal(tok.Amount) {
				differs = true
				ap.TotalTokens[i].Amount = want
			}
			for j, na := range ap.NonAmmPoolTokens {
				if na.Denom == tok.Denom && !na.Amount.Equal(L.Sub(C)) {
					differs = true
					ap.NonAmmPoolTokens[j].Amount = L.Sub(C)
				}
			}
		}
		if differs {
			h.Labels["c10-accounted-pool-rederived-differs"]++
			app.AccountedPoolKeeper.SetAccountedPool(ctx, ap)
		}
	}
}

func CheckC10(h *History, blk *BlockRecord) []Violation {
	prev, cur := h.Prev, h.Cur
	if prev == nil {
		return nil
	}
	var out []Violation
	// which positions did their owners touch successfully in this block?
	ownerTouchedLP, ownerTouchedMTP := map[uint64]bool{}, map[uint64]bool{}
	ownerActive := map[string]bool{}
	feedInBlock := false
	for _, tx := range blk.Txs {
		if tx.Code != 0 {
			continue
		}
		acc := h.W.accountByName(tx.Signer)
		ownerActive[acc.Addr.String()] = true
		switch m := tx.Msg.(type) {
		case *lptypes.MsgClose:
			ownerTouchedLP[m.Id] = true
		case *lptypes.MsgUpdateStopLoss:
			ownerTouchedLP[m.Position] = true
		case *lptypes.MsgOpen:
			for _, p := range prev.LPPositions {
				if p.Address == m.Creator && p.AmmPoolId == m.AmmPoolId {
					ownerTouchedLP[p.Id] = true
				}
			}
		case *perptypes.MsgClose:
			ownerTouchedMTP[m.Id] = true
		case *perptypes.MsgUpdateStopLoss:
			ownerTouchedMTP[m.Id] = true
		case *perptypes.MsgUpdateTakeProfitPrice:
			ownerTouchedMTP[m.Id] = true
		case *perptypes.MsgOpen:
			for _, p := range prev.MTPs {
				if p.Address == m.Creator && p.AmmPoolId == m.PoolId {
					ownerTouchedMTP[p.Id] = true
				}
			}
		}
		if strings.HasSuffix(tx.MsgType, "MsgFeedPrice") || strings.HasSuffix(tx.MsgType, "MsgFeedMultiplePrices") {
			feedInBlock = true
		}
	}
	curLP := map[uint64]lptypes.Position{}
	for _, p := range cur.LPPositions {
		curLP[p.Id] = p
	}
	curMTP := map[uint64]perptypes.MTP{}
	for _, m := range cur.MTPs {
		curMTP[m.Id] = m
	}
	debtOf := func(s *Snapshot, addr string) sdkmath.Int {
		for _, d := range s.Debts {
			if d.Address == addr {
				return d.Borrowed
			}
		}
		return sdkmath.ZeroInt()
	}
	var pctx sdk.Context
	have := false
	get := func() (sdk.Context, bool) {
		if !have {
			pctx, have = h.prevStateAtNewTime()
			if !have {
				return pctx, false
			}
		}
		br, _ := pctx.CacheContext()
		return br, true
	}
	// ---- leveragelp (begin-block sweep uses the prices of the previous block; bot requests later in
	// the block see the block's feeds: such blocks are skipped for third-party attribution)
	for _, p := range prev.LPPositions {
		if ownerTouchedLP[p.Id] {
			continue
		}
		c, still := curLP[p.Id]
		paddr := p.GetPositionAddress().String()
		changed := !still || !c.LeveragedLpAmount.Equal(p.LeveragedLpAmount) || !c.Collateral.Equal(p.Collateral) || !debtOf(cur, paddr).Equal(debtOf(prev, paddr))
		if !changed {
			continue
		}
		h.Labels["c10-lp-altered-by-third-party"]++
		// "at that moment" is the state the closer met, not the state before the block: what other transactions and
		// other forced closes of the same block did to the pool before is not observable from outside. The position is
		// judged only when all of that together is small against the pool (three thousandths of it).
		if mv := h.c10Movement(blk, p.AmmPoolId, p.Id, 0); mv > 0.003 {
			h.Labels["c10-lp-not-judged(pool-moved-inside-the-block)"]++
			continue
		}
		if feedInBlock {
			h.Labels["c10-skipped-feed-in-block"]++
			continue
		}
		ctx, ok := get()
		if !ok {
			continue
		}
		k := h.W.App.LeveragelpKeeper
		sf := k.GetParams(ctx).SafetyFactor
		health, herr := k.GetPositionHealth(ctx, p)
		eligible, why := false, ""
		if herr == nil && health.LTE(sf.Mul(c10Delta)) {
			eligible, why = true, fmt.Sprintf("health %s <= SF %s (+1%%)", health, sf)
		}
		if !eligible && !p.StopLossPrice.IsNil() && p.StopLossPrice.IsPositive() {
			if amm, found := h.W.App.AmmKeeper.GetPool(ctx, p.AmmPoolId); found {
				if lpPrice, err := amm.LpTokenPrice(ctx, h.W.App.OracleKeeper, h.W.App.AccountedPoolKeeper); err == nil && lpPrice.LTE(p.StopLossPrice.Mul(c10Delta)) {
					eligible, why = true, fmt.Sprintf("lp price %s <= stop-loss %s (+1%%)", lpPrice, p.StopLossPrice)
				}
			}
		}
		if herr != nil {
			h.Labels["c10-health-unavailable"]++
			continue
		}
		if eligible {
			h.Labels["c10-lp-forced-close-eligible"]++
			_ = why
			continue
		}
		out = append(out, Violation{Sig: "C10/leveragelp-altered-while-not-eligible", Detail: fmt.Sprintf("leveragelp position %d of %s was altered/closed by someone else (shares %s -> %v, still=%v) although on the previous state at this block's time its health was %s (SF %s) and its stop-loss %s was not reached (height %d; %s)", p.Id, h.W.nameOf(p.Address), p.LeveragedLpAmount, c.LeveragedLpAmount, still, health, sf, p.StopLossPrice, cur.Height, blockSummary(blk))})
	}
	// ---- perpetual
	othersInBlock := 0
	for _, tx := range blk.Txs {
		if tx.Code == 0 && (strings.Contains(tx.MsgType, ".amm.") || strings.Contains(tx.MsgType, ".perpetual.") || strings.Contains(tx.MsgType, ".leveragelp.")) {
			othersInBlock++
		}
	}
	for _, m := range prev.MTPs {
		if _, still := curMTP[m.Id]; !still && !ownerTouchedMTP[m.Id] {
			othersInBlock++
		}
	}
	if othersInBlock > 0 {
		othersInBlock-- // the close request itself
	}
	for _, m := range prev.MTPs {
		if ownerTouchedMTP[m.Id] {
			continue
		}
		c, still := curMTP[m.Id]
		changed := !still || !c.Liabilities.Equal(m.Liabilities) || !c.Collateral.Equal(m.Collateral)
		if !changed {
			// size, collateral and principal are as they were; the custody (what the owner will be paid from) may only
			// have dropped by "interest and funding that had already accrued": the amount one settlement with the
			// module's own functions takes on the previous state at this block's time – however often, and in however
			// many lists, third parties named the position
			if c.Custody.LT(m.Custody) && !feedInBlock && m.Custody.GTE(sdkmath.NewInt(1_000_000)) && m.Liabilities.GTE(sdkmath.NewInt(1_000_000)) {
				if ctx, ok := get(); ok {
					k := h.W.App.PerpetualKeeper
					if amm, found := h.W.App.AmmKeeper.GetPool(ctx, m.AmmPoolId); found {
						mm := m
						k.UpdateMTPBorrowInterestUnpaidLiability(ctx, &mm)
						if ppool, pfound := k.GetPool(ctx, m.AmmPoolId); pfound {
							if _, err := k.SettleMTPBorrowInterestUnpaidLiability(ctx, &mm, &ppool, amm); err == nil {
								_ = k.SettleFunding(ctx, &mm, &ppool, amm)
							}
						}
						expected := m.Custody.Sub(mm.Custody) // what one settlement takes
						if expected.IsNegative() {
							expected = sdkmath.ZeroInt()
						}
						taken := m.Custody.Sub(c.Custody)
						// the interest part is swapped through the pool at the state of that moment: 5 % per other
						// pool-touching tx of the block on top of the expected amount, plus rounding
						allowed := expected.MulRaw(int64(105 + 5*othersInBlock)).QuoRaw(100).AddRaw(10)
						h.Labels["c10-custody-drop-checked"]++
						if taken.GT(allowed) {
							out = append(out, Violation{Sig: "C10/custody-drained-beyond-accrued", Detail: fmt.Sprintf("MTP %d (%s) of %s kept its size, collateral and principal, but its custody fell %s -> %s (-%s) in a block in which its owner did nothing; interest and funding accrued up to this block's time take %s (allowed %s) (height %d; %s)",
								m.Id, m.Position, h.W.nameOf(m.Address), m.Custody, c.Custody, taken, expected, allowed, cur.Height, blockSummary(blk))})
						}
					}
				}
			}
			continue
		}
		h.Labels["c10-mtp-altered-by-third-party"]++
		// dust positions (< 1e6 base units of liabilities or custody): the swap estimation's unit rounding
		// moves their health by several per cent; their decision exactness is covered by the boundary part
		if m.Liabilities.LT(sdkmath.NewInt(1_000_000)) || m.Custody.LT(sdkmath.NewInt(1_000_000)) {
			h.Labels["c10-skipped-dust-position"]++
			continue
		}
		if feedInBlock {
			h.Labels["c10-skipped-feed-in-block"]++
			continue
		}
		ctx, ok := get()
		if !ok {
			continue
		}
		k := h.W.App.PerpetualKeeper
		sf := k.GetSafetyFactor(ctx)
		amm, found := h.W.App.AmmKeeper.GetPool(ctx, m.AmmPoolId)
		if !found {
			continue
		}
		mm := m
		// interest and funding that have accrued up to this block's time belong to "the moment":
		// they are settled with the module's own accrual functions on the branch before health is read
		k.UpdateMTPBorrowInterestUnpaidLiability(ctx, &mm)
		if ppool, pfound := k.GetPool(ctx, m.AmmPoolId); pfound {
			if _, err := k.SettleMTPBorrowInterestUnpaidLiability(ctx, &mm, &ppool, amm); err == nil {
				_ = k.SettleFunding(ctx, &mm, &ppool, amm)
			}
		}
		if mv := h.c10Movement(blk, m.AmmPoolId, 0, m.Id); mv > 0.003 {
			h.Labels["c10-mtp-not-judged(pool-moved-inside-the-block)"]++
			continue
		}
		health, herr := k.GetMTPHealth(ctx, mm, amm, ptypes.BaseCurrency)
		if herr == nil {
			folded := mm
			folded.Liabilities, folded.BorrowInterestUnpaidLiability = mm.Liabilities.Add(mm.BorrowInterestUnpaidLiability), sdkmath.ZeroInt()
			if h2, err := k.GetMTPHealth(ctx, folded, amm, ptypes.BaseCurrency); err == nil && h2.LT(health) {
				health = h2
			}
		}
		price, perr := k.GetAssetPrice(ctx, m.TradingAsset)
		if herr != nil || perr != nil {
			h.Labels["c10-health-unavailable"]++
			continue
		}
		// every other forced close / pool-touching tx of the same block moves the pool the health is
		// estimated against: the band grows by 2% for each of them
		band := c10Delta.Add(sdkmath.LegacyNewDecWithPrec(2, 2).MulInt64(int64(othersInBlock)))
		eligible := health.LTE(sf.Mul(band))
		long := m.Position == perptypes.Position_LONG
		if !eligible && !m.StopLossPrice.IsNil() && m.StopLossPrice.IsPositive() {
			if (long && price.LTE(m.StopLossPrice)) || (!long && price.GTE(m.StopLossPrice)) {
				eligible = true
			}
		}
		if !eligible && !m.TakeProfitPrice.IsNil() && m.TakeProfitPrice.IsPositive() {
			if (long && price.GTE(m.TakeProfitPrice)) || (!long && price.LTE(m.TakeProfitPrice)) {
				eligible = true
			}
		}
		if eligible {
			h.Labels["c10-mtp-forced-close-eligible"]++
			continue
		}
		out = append(out, Violation{Sig: "C10/perpetual-altered-while-not-eligible", Detail: fmt.Sprintf("MTP %d (%s) of %s was altered/closed by someone else (liabilities %s -> %v, still=%v) although on the previous state at this block's time its health was %s (SF %s), price %s, stop-loss %s, take-profit %s (height %d; %s)", m.Id, m.Position, h.W.nameOf(m.Address), m.Liabilities, c.Liabilities, still, health, sf, price, m.StopLossPrice, m.TakeProfitPrice, cur.Height, blockSummary(blk))})
	}
	// ---- named but non-eligible: counted when a close-positions tx named a position that is unchanged
	for _, tx := range blk.Txs {
		if tx.Code != 0 {
			continue
		}
		switch m := tx.Msg.(type) {
		case *lptypes.MsgClosePositions:
			for _, r := range append(append([]*lptypes.PositionRequest{}, m.Liquidate...), m.StopLoss...) {
				if c, ok := curLP[r.Id]; ok {
					for _, p := range prev.LPPositions {
						if p.Id == r.Id && c.LeveragedLpAmount.Equal(p.LeveragedLpAmount) {
							h.Labels["c10-named-but-untouched"]++
						}
					}
				}
			}
		case *perptypes.MsgClosePositions:
			for _, r := range append(append(append([]perptypes.PositionRequest{}, m.Liquidate...), m.StopLoss...), m.TakeProfit...) {
				if c, ok := curMTP[r.Id]; ok {
					for _, p := range prev.MTPs {
						if p.Id == r.Id && c.Liabilities.Equal(p.Liabilities) {
							h.Labels["c10-named-but-untouched"]++
						}
					}
				}
			}
		}
	}
	// ---- opens start healthy: a successful open that is the last pool-touching tx of its block
	lastTouch := -1
	for i, tx := range blk.Txs {
		if tx.Code == 0 && (strings.Contains(tx.MsgType, ".amm.") || strings.Contains(tx.MsgType, ".perpetual.") || strings.Contains(tx.MsgType, ".leveragelp.") || strings.Contains(tx.MsgType, ".oracle.") || strings.Contains(tx.MsgType, ".stablestake.") || strings.Contains(tx.MsgType, ".tradeshield.")) {
			lastTouch = i
		}
	}
	// accepted swap requests are executed in the end-blocker, i.e. after every tx of the block: a block
	// with an accepted swap cannot attribute the end-of-block pool state to the open
	for _, tx := range blk.Txs {
		if tx.Code == 0 && strings.Contains(tx.MsgType, ".amm.MsgSwap") {
			lastTouch = -1
		}
	}
	if lastTouch >= 0 {
		tx := blk.Txs[lastTouch]
		rctx := h.W.ReadCtx()
		switch m := tx.Msg.(type) {
		case *perptypes.MsgOpen:
			for _, mtp := range cur.MTPs {
				if mtp.Address == m.Creator && mtp.AmmPoolId == m.PoolId && mtp.Position == m.Position && mtp.CollateralAsset == m.Collateral.Denom && mtp.TradingAsset == m.TradingAsset {
					sf := h.W.App.PerpetualKeeper.GetSafetyFactor(rctx)
					amm, _ := h.W.App.AmmKeeper.GetPool(rctx, mtp.AmmPoolId)
					if hh, err := h.W.App.PerpetualKeeper.GetMTPHealth(rctx, mtp, amm, ptypes.BaseCurrency); err == nil {
						h.Labels["c10-open-health-checked"]++
						// health is a function of the total debt: principal plus interest accrued and not yet paid. Moving the
						// unpaid interest into the principal must not change it (metamorphic relation); the lower value counts
						folded := mtp
						folded.Liabilities, folded.BorrowInterestUnpaidLiability = mtp.Liabilities.Add(mtp.BorrowInterestUnpaidLiability), sdkmath.ZeroInt()
						if h2, err := h.W.App.PerpetualKeeper.GetMTPHealth(rctx, folded, amm, ptypes.BaseCurrency); err == nil && h2.LT(hh) {
							h.Labels["c10-health-changes-when-unpaid-interest-is-folded-into-principal"]++
							hh = h2
						}
						// two measures: the health the chain itself stored for the position when the open finished, and the
						// health recomputed on the committed state. The second prices the position against the NEXT block's
						// pool snapshot (which already contains this open's own borrow), the first against the snapshot of the
						// block the open ran in; for a position opened at the very edge they differ in the fourth digit, so
						// the recomputed value is given 1 % of head-room, the stored one none
						// the recomputed measure is only meaningful for a position that is small against the pool: a large
						// one moves, with its own borrow and custody, the very snapshot it is re-measured against
						small := true
						if r := reserveOf(&amm, mtp.CustodyAsset); r.IsPositive() && mtp.Custody.MulRaw(100).GT(r) {
							small = false
							h.Labels["c10-open-health-large-position(stored-measure-only)"]++
						}
						if mtp.MtpHealth.LTE(sf) || (small && hh.LTE(sf.Mul(sdkmath.LegacyMustNewDecFromStr("0.99")))) {
							out = append(out, Violation{Sig: "C10/open-left-unhealthy-position", Detail: fmt.Sprintf("a successful perpetual open left MTP %d with health %s (stored at the open: %s) <= safety factor %s (height %d)", mtp.Id, hh, mtp.MtpHealth, sf, cur.Height)})
						}
					}
				}
			}
		case *lptypes.MsgOpen:
			for _, p := range cur.LPPositions {
				if p.Address == m.Creator && p.AmmPoolId == m.AmmPoolId {
					sf := h.W.App.LeveragelpKeeper.GetParams(rctx).SafetyFactor
					if hh, err := h.W.App.LeveragelpKeeper.GetPositionHealth(rctx, p); err == nil {
						h.Labels["c10-open-health-checked"]++
						if (!p.PositionHealth.IsNil() && p.PositionHealth.IsPositive() && p.PositionHealth.LTE(sf)) || hh.LTE(sf.Mul(sdkmath.LegacyMustNewDecFromStr("0.99"))) {
							out = append(out, Violation{Sig: "C10/open-left-unhealthy-position", Detail: fmt.Sprintf("a successful leveragelp open left position %d with health %s (stored at the open: %s) <= safety factor %s (height %d)", p.Id, hh, p.PositionHealth, sf, cur.Height)})
						}
					}
				}
			}
		}
	}
	_ = ammtypes.ModuleName
	return out
}

// c10Movement: an upper estimate of how far other successful transactions and other forced closes of the block moved
// amm pool id, as a fraction of the pool (1 = cannot be bounded). Queued swaps do not count: they run after every
// transaction of the block.
func (h *History) c10Movement(blk *BlockRecord, id uint64, exceptLP, exceptMTP uint64) float64 {
	prev := h.Prev
	amm := prev.Pool(id)
	if amm == nil || !amm.TotalShares.Amount.IsPositive() {
		return 1
	}
	frac := func(a sdkmath.Int, of sdkmath.Int) float64 {
		if !of.IsPositive() {
			return 1
		}
		f, _ := a.ToLegacyDec().Quo(of.ToLegacyDec()).Float64()
		return f
	}
	mv := 0.0
	for _, tx := range blk.Txs {
		if tx.Code != 0 {
			continue
		}
		switch m := tx.Msg.(type) {
		case *ammtypes.MsgJoinPool:
			if m.PoolId == id {
				for _, c := range m.MaxAmountsIn {
					mv += frac(c.Amount, reserveOf(amm, c.Denom))
				}
			}
		case *ammtypes.MsgExitPool:
			if m.PoolId == id {
				mv += frac(m.ShareAmountIn, amm.TotalShares.Amount)
			}
		case *perptypes.MsgOpen:
			if m.PoolId == id {
				lev := m.Leverage
				if lev.LT(sdkmath.LegacyOneDec()) {
					lev = sdkmath.LegacyOneDec()
				}
				mv += frac(lev.MulInt(m.Collateral.Amount).TruncateInt(), reserveOf(amm, m.Collateral.Denom))
			}
		case *lptypes.MsgOpen:
			if m.AmmPoolId == id {
				lev := m.Leverage
				if lev.LT(sdkmath.LegacyOneDec()) {
					lev = sdkmath.LegacyOneDec()
				}
				mv += frac(lev.MulInt(m.CollateralAmount).TruncateInt(), reserveOf(amm, m.CollateralAsset))
			}
		case *perptypes.MsgClose, *lptypes.MsgClose:
			return 1
		default:
			if strings.Contains(tx.MsgType, ".tradeshield.MsgExecuteOrders") {
				return 1
			}
		}
	}
	curLP := map[uint64]sdkmath.Int{}
	for _, p := range h.Cur.LPPositions {
		curLP[p.Id] = p.LeveragedLpAmount
	}
	for _, p := range prev.LPPositions {
		if p.AmmPoolId != id || p.Id == exceptLP {
			continue
		}
		now, still := curLP[p.Id]
		if !still {
			now = sdkmath.ZeroInt()
		}
		if now.LT(p.LeveragedLpAmount) {
			mv += frac(p.LeveragedLpAmount.Sub(now), amm.TotalShares.Amount)
		}
	}
	curMTP := map[uint64]bool{}
	for _, m := range h.Cur.MTPs {
		curMTP[m.Id] = true
	}
	for _, m := range prev.MTPs {
		if m.AmmPoolId == id && !curMTP[m.Id] && m.Id != exceptMTP {
			mv += frac(m.Custody, reserveOf(amm, m.CustodyAsset))
		}
	}
	return mv
}
