package harness

import (
	"encoding/json"
	"math/big"
	"os"
	"testing"

	sdkmath "cosmossdk.io/math"
)

// Native, coverage-guided deepening of the pure C03 legs (thorough tier only). The rapid generator draws
// weights and fees from fixed lists; here every weight pair 1..100 : 1..100, every fee in [0, 2%] at the full
// 18-digit resolution and every reserve / amount up to 1e30 is reachable, and the fuzzer's coverage feedback
// steers towards the branches of the power approximation. The oracle is the same exact big.Rat bound, which
// holds on the whole domain for single legs. A failure is written as an ordinary c03 replay case.
func decodeMag(m uint64, e uint8, maxExp int) sdkmath.Int {
	v := new(big.Int).SetUint64(m%1_000_000_000_000 + 1)
	v.Mul(v, new(big.Int).Exp(big.NewInt(10), big.NewInt(int64(int(e)%(maxExp+1))), nil))
	return sdkmath.NewIntFromBigInt(v)
}

func FuzzC03(f *testing.F) {
	f.Add(uint8(0), uint8(0), uint8(0), uint64(0), uint64(999_999), uint8(0), uint64(999_999), uint8(0), uint64(0), uint8(0))
	f.Add(uint8(1), uint8(98), uint8(0), uint64(19_999_999_999_999_999), uint64(0), uint8(18), uint64(0), uint8(0), uint64(0), uint8(17))
	f.Add(uint8(0), uint8(0), uint8(98), uint64(1), uint64(2620), uint8(0), uint64(26214499), uint8(12), uint64(1346), uint8(0))
	f.Add(uint8(1), uint8(79), uint8(19), uint64(3_000_000_000_000_000), uint64(5241), uint8(0), uint64(0), uint8(0), uint64(33), uint8(0))
	f.Add(uint8(0), uint8(32), uint8(66), uint64(2_500_000_000_000_000), uint64(123456789), uint8(9), uint64(987654321), uint8(3), uint64(123456788), uint8(9))
	f.Fuzz(func(t *testing.T, kind, wi, wo uint8, feeRaw, biM uint64, biE uint8, boM uint64, boE uint8, amM uint64, amE uint8) {
		c := c03Case{Property: "C03", Kind: []string{"exact-in", "exact-out"}[kind%2], Wi: int64(wi%100) + 1, Wo: int64(wo%100) + 1}
		c.Fee = sdkmath.LegacyNewDecFromBigIntWithPrec(new(big.Int).SetUint64(feeRaw%20_000_000_000_000_001), 18).String()
		bi, bo := decodeMag(biM, biE, 18), decodeMag(boM, boE, 18)
		c.Bi, c.Bo = bi.String(), bo.String()
		// the statement quantifies over trade sizes "from 1 base unit up to nearly the whole reserve": the amount
		// is folded into [1, reserve] (reserve in for exact-in, reserve out for exact-out; the exact-out leg
		// itself rejects amount == reserve). Beyond that the base Bi/(Bi+A) falls under the 18-digit resolution
		// of the fixed-point type and the documented 1e-8 precision is not claimed.
		ref := bi
		if c.Kind == "exact-out" {
			ref = bo
		}
		amt := decodeMag(amM, amE, 18)
		if amt.GT(ref) {
			amt = amt.Mod(ref).AddRaw(1)
		}
		c.Amount = amt.String()
		if v, _, _ := runC03Case(c); v != "" {
			c.What = v
			if p := os.Getenv("VERIF_FAILTRACE"); p != "" {
				bz, _ := json.MarshalIndent(c, "", " ")
				_ = os.WriteFile(p, bz, 0o644)
			}
			t.Fatalf("VIOLATION C03: %s", v)
		}
	})
}
