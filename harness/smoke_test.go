package harness

import (
	"testing"
	"time"

	sdkmath "cosmossdk.io/math"
	sdk "github.com/cosmos/cosmos-sdk/types"
	ammtypes "github.com/elys-network/elys/x/amm/types"
	ptypes "github.com/elys-network/elys/x/parameter/types"
)

func TestSmoke(t *testing.T) {
	t0 := time.Now()
	w, err := BuildWorld(DefaultWorldSpec())
	if err != nil {
		t.Fatal(err)
	}
	t.Logf("build world %v height=%d", time.Since(t0), w.Height)
	u := w.Accounts[0]
	w.Submit(u, &ammtypes.MsgSwapExactAmountIn{Sender: u.Addr.String(),
		Routes:  []ammtypes.SwapAmountInRoute{{PoolId: 1, TokenOutDenom: ptypes.ATOM}},
		TokenIn: sdk.NewInt64Coin(ptypes.BaseCurrency, 1000000), TokenOutMinAmount: sdkmath.OneInt(), Recipient: u.Addr.String()})
	t0 = time.Now()
	b := w.EndBlock(5 * time.Second)
	t.Logf("block %v err=%v code=%d log=%s gas=%d", time.Since(t0), w.BlockErr, b.Txs[0].Code, b.Txs[0].Log, b.Txs[0].GasUsed)
	ctx := w.ReadCtx()
	t.Logf("bal %s", w.App.BankKeeper.GetAllBalances(ctx, u.Addr))
}
