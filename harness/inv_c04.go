package harness

import (
	"fmt"
	"os"
	"strings"

	sdkmath "cosmossdk.io/math"
	sdk "github.com/cosmos/cosmos-sdk/types"

	ammtypes "github.com/elys-network/elys/x/amm/types"
)

// ---------------------------------------------------------------- C04
//
// Per block a few "requester" accounts submit swap requests and nothing else; their
// recipients are themselves or dedicated passive sink accounts. For every requester the
// per-denom balance change over the block (fees added back) must be explainable by SOME
// subset of its accepted requests, each applied at most once and within its stated limits.

type swapReq struct {
	Requester string // account name
	Sender    string
	Recipient string
	ExactIn   bool
	InDenom   string
	OutDenom  string
	Amount    sdkmath.Int // exact-in: token in; exact-out: token out
	Limit     sdkmath.Int // exact-in: min out; exact-out: max in
	Mids      []string
	TxIndex   int
	Accepted  bool
}

func c04ExtraOps(h *History, g *G) []*Op {
	var out []*Op
	nReq := g.Int("c04/nreq", 1, 3)
	users := append([]*Account{}, h.W.Accounts...)
	for i := 0; i < nReq && len(users) > 0; i++ {
		k := g.Pick("c04/who", len(users))
		u := users[k]
		users = append(users[:k], users[k+1:]...)
		g.Busy[u.Addr.String()] = true
		n := 1
		if g.Int("c04/two", 0, 3) == 0 {
			n = 2
		}
		for j := 0; j < n; j++ {
			if op := genC04Request(g, u, h.W.Sinks[i%len(h.W.Sinks)]); op != nil {
				out = append(out, op)
			}
		}
	}
	return out
}

func genC04Request(g *G, u, sink *Account) *Op {
	rcpt := u.Addr.String()
	if g.Bool("c04/sink") {
		rcpt = sink.Addr.String()
	}
	twoHop := g.Int("c04/hops", 0, 2) == 0
	exactIn := g.Bool("c04/exactin")
	if twoHop {
		p1, p2, a, mid, b := g.twoHop()
		if p1 == nil {
			twoHop = false
		} else if exactIn {
			amt := g.ModestAmount("c04/amt", reserveOf(p1, a))
			est := estimateOut(p1, a, mid, amt)
			est = estimateOut(p2, mid, b, est)
			return &Op{Signer: u, Kind: "c04.swap_in_2hop", Msg: &ammtypes.MsgSwapExactAmountIn{Sender: u.Addr.String(),
				Routes:  []ammtypes.SwapAmountInRoute{{PoolId: p1.PoolId, TokenOutDenom: mid}, {PoolId: p2.PoolId, TokenOutDenom: b}},
				TokenIn: sdk.NewCoin(a, amt), TokenOutMinAmount: limitAround(g, est, false), Recipient: rcpt}}
		} else {
			amt := g.ModestAmount("c04/amt", reserveOf(p2, b))
			est := estimateIn(p2, mid, b, amt)
			est = estimateIn(p1, a, mid, est)
			return &Op{Signer: u, Kind: "c04.swap_out_2hop", Msg: &ammtypes.MsgSwapExactAmountOut{Sender: u.Addr.String(),
				Routes:   []ammtypes.SwapAmountOutRoute{{PoolId: p1.PoolId, TokenInDenom: a}, {PoolId: p2.PoolId, TokenInDenom: mid}},
				TokenOut: sdk.NewCoin(b, amt), TokenInMaxAmount: limitAround(g, est, true), Recipient: rcpt}}
		}
	}
	p := g.pool()
	if p == nil {
		return nil
	}
	i := g.Pick("c04/dir", 2)
	in, out := p.PoolAssets[i].Token, p.PoolAssets[1-i].Token
	if g.Int("c04/bydenom", 0, 4) == 0 {
		// stated by denoms only (the chain chooses the route)
		if exactIn {
			amt := g.ModestAmount("c04/amt", in.Amount)
			est := estimateOut(p, in.Denom, out.Denom, amt)
			g.H.Labels["c04-by-denom-requests"]++
			return &Op{Signer: u, Kind: "c04.swap_by_denom_in", Msg: &ammtypes.MsgSwapByDenom{Sender: u.Addr.String(), Amount: sdk.NewCoin(in.Denom, amt),
				MinAmount: sdk.NewCoin(out.Denom, limitAround(g, est, false)), MaxAmount: sdk.NewCoin(out.Denom, sdkmath.ZeroInt()), DenomIn: in.Denom, DenomOut: out.Denom, Recipient: rcpt}}
		}
		amt := g.ModestAmount("c04/amt", out.Amount)
		est := estimateIn(p, in.Denom, out.Denom, amt)
		g.H.Labels["c04-by-denom-requests"]++
		// (the handler wants the maximum denominated in the OUT denom; its amount is the cap on the input)
		return &Op{Signer: u, Kind: "c04.swap_by_denom_out", Msg: &ammtypes.MsgSwapByDenom{Sender: u.Addr.String(), Amount: sdk.NewCoin(out.Denom, amt),
			MinAmount: sdk.NewCoin(out.Denom, sdkmath.ZeroInt()), MaxAmount: sdk.NewCoin(out.Denom, limitAround(g, est, true)), DenomIn: in.Denom, DenomOut: out.Denom, Recipient: rcpt}}
	}
	if exactIn {
		amt := g.ModestAmount("c04/amt", in.Amount)
		est := estimateOut(p, in.Denom, out.Denom, amt)
		// the chain's own quote on the committed state (what a front end shows the user): the plain pool output
		// and, for oracle pools off their target weights, the nominal weight-recovery bonus on top of it
		var q *ammtypes.QuerySwapEstimationResponse
		qerr := safeCall(func() (e error) {
			q, e = g.W.App.AmmKeeper.SwapEstimation(g.W.ReadCtx(), &ammtypes.QuerySwapEstimationRequest{
				Routes: []*ammtypes.SwapAmountInRoute{{PoolId: p.PoolId, TokenOutDenom: out.Denom}}, TokenIn: sdk.NewCoin(in.Denom, amt), Discount: sdkmath.LegacyZeroDec()})
			return e
		})
		if qerr != nil && strings.HasPrefix(qerr.Error(), "panic:") {
			// the estimation query itself panicked (a query is not block processing; the same computation inside a
			// transaction fails that transaction alone, and inside the end-blocker it is C18's business)
			g.H.Labels["c04-quote-panicked"]++
			if os.Getenv("VERIF_DEBUG_QUOTE") != "" {
				fmt.Fprintf(os.Stderr, "QUOTE PANIC %v: pool %d assets %v in %s%s -> %s\n", qerr, p.PoolId, p.PoolAssets, amt, in.Denom, out.Denom)
			}
		}
		if qerr == nil && q != nil && q.TokenOut.Amount.IsPositive() {
			est = q.TokenOut.Amount
			if q.WeightBalanceRatio.IsPositive() && g.Bool("c04/withinbonus") {
				// a minimum between the plain output and output + nominal bonus
				frac := sdkmath.LegacyNewDecWithPrec(int64(g.Int("c04/bonusfrac", 1, 99)), 2)
				est = est.Add(q.WeightBalanceRatio.Mul(frac).MulInt(est).TruncateInt())
				g.H.Labels["c04-min-within-bonus"]++
				return &Op{Signer: u, Kind: "c04.swap_in", Msg: &ammtypes.MsgSwapExactAmountIn{Sender: u.Addr.String(),
					Routes:  []ammtypes.SwapAmountInRoute{{PoolId: p.PoolId, TokenOutDenom: out.Denom}},
					TokenIn: sdk.NewCoin(in.Denom, amt), TokenOutMinAmount: est, Recipient: rcpt}}
			}
		}
		return &Op{Signer: u, Kind: "c04.swap_in", Msg: &ammtypes.MsgSwapExactAmountIn{Sender: u.Addr.String(),
			Routes:  []ammtypes.SwapAmountInRoute{{PoolId: p.PoolId, TokenOutDenom: out.Denom}},
			TokenIn: sdk.NewCoin(in.Denom, amt), TokenOutMinAmount: limitAround(g, est, false), Recipient: rcpt}}
	}
	amt := g.ModestAmount("c04/amt", out.Amount)
	est := estimateIn(p, in.Denom, out.Denom, amt)
	return &Op{Signer: u, Kind: "c04.swap_out", Msg: &ammtypes.MsgSwapExactAmountOut{Sender: u.Addr.String(),
		Routes:   []ammtypes.SwapAmountOutRoute{{PoolId: p.PoolId, TokenInDenom: in.Denom}},
		TokenOut: sdk.NewCoin(out.Denom, amt), TokenInMaxAmount: limitAround(g, est, true), Recipient: rcpt}}
}

// constant-product estimate from the book (only used to place the user's limit near the
// executable boundary; the oracle never relies on it)
func estimateOut(p *ammtypes.Pool, in, out string, amt sdkmath.Int) sdkmath.Int {
	ri, ro := reserveOf(p, in), reserveOf(p, out)
	if !ri.IsPositive() || !ro.IsPositive() {
		return sdkmath.OneInt()
	}
	return maxInt(ro.Mul(amt).Quo(ri.Add(amt)), sdkmath.OneInt())
}

func estimateIn(p *ammtypes.Pool, in, out string, amt sdkmath.Int) sdkmath.Int {
	ri, ro := reserveOf(p, in), reserveOf(p, out)
	if !ri.IsPositive() || !ro.GT(amt) {
		return ri.MulRaw(1000)
	}
	return ri.Mul(amt).Quo(ro.Sub(amt)).AddRaw(1)
}

// limitAround: very loose / near the estimate (both sides) / impossible
func limitAround(g *G, est sdkmath.Int, isMax bool) sdkmath.Int {
	if g.Int("c04/zerolimit", 0, 11) == 0 {
		return sdkmath.ZeroInt() // "at most nothing" / "at least nothing": a valid message
	}
	switch g.Int("c04/limit", 0, 5) {
	case 0, 1:
		if isMax {
			return est.MulRaw(1000).AddRaw(1000)
		}
		return sdkmath.OneInt()
	case 2:
		return maxInt(est.MulRaw(int64(g.Int("c04/near", 97, 103))).QuoRaw(100), sdkmath.OneInt())
	case 3:
		return maxInt(est.MulRaw(int64(g.Int("c04/near2", 90, 110))).QuoRaw(100), sdkmath.OneInt())
	case 4:
		return maxInt(est.AddRaw(int64(g.Int("c04/pm", -2, 2))), sdkmath.OneInt())
	default:
		if isMax {
			return sdkmath.OneInt()
		}
		return est.MulRaw(1000)
	}
}

func parseSwapReq(w *World, tx *TxRecord, idx int) *swapReq {
	switch m := tx.Msg.(type) {
	case *ammtypes.MsgSwapByDenom:
		// the same request stated by denoms; the chain picks the route, so every other funded denom may be an
		// intermediate one
		r := &swapReq{Requester: tx.Signer, Sender: m.Sender, Recipient: m.Recipient, InDenom: m.DenomIn, OutDenom: m.DenomOut, Amount: m.Amount.Amount, TxIndex: idx, Accepted: tx.Code == 0}
		if m.Amount.Denom == m.DenomIn {
			r.ExactIn, r.Limit = true, m.MinAmount.Amount
		} else {
			r.ExactIn, r.Limit = false, m.MaxAmount.Amount
		}
		for _, d := range w.Scenario.Denoms {
			if d != m.DenomIn && d != m.DenomOut {
				r.Mids = append(r.Mids, d)
			}
		}
		return r
	case *ammtypes.MsgSwapExactAmountIn:
		r := &swapReq{Requester: tx.Signer, Sender: m.Sender, Recipient: m.Recipient, ExactIn: true, InDenom: m.TokenIn.Denom,
			OutDenom: m.Routes[len(m.Routes)-1].TokenOutDenom, Amount: m.TokenIn.Amount, Limit: m.TokenOutMinAmount, TxIndex: idx, Accepted: tx.Code == 0}
		for _, rt := range m.Routes[:len(m.Routes)-1] {
			r.Mids = append(r.Mids, rt.TokenOutDenom)
		}
		return r
	case *ammtypes.MsgSwapExactAmountOut:
		r := &swapReq{Requester: tx.Signer, Sender: m.Sender, Recipient: m.Recipient, ExactIn: false, InDenom: m.Routes[0].TokenInDenom,
			OutDenom: m.TokenOut.Denom, Amount: m.TokenOut.Amount, Limit: m.TokenInMaxAmount, TxIndex: idx, Accepted: tx.Code == 0}
		for _, rt := range m.Routes[1:] {
			r.Mids = append(r.Mids, rt.TokenInDenom)
		}
		return r
	}
	return nil
}

type interval struct {
	lo    sdkmath.Int
	hi    sdkmath.Int
	hiInf bool
}

func CheckC04(h *History, blk *BlockRecord) []Violation {
	var out []Violation
	s, prev := h.Cur, h.Prev
	if prev == nil {
		return nil
	}
	// requests of this block by the profile's requesters (kinds "c04.*")
	byReq := map[string][]*swapReq{}
	feesOf := map[string]sdk.Coins{}
	signed := map[string]bool{}
	for i := range blk.Txs {
		tx := &blk.Txs[i]
		signed[tx.Signer] = true
		fee, _ := sdk.ParseCoinsNormalized(tx.Fee)
		// fee is charged unless the tx failed before/inside the fee deduction (insufficient funds / sequence): detect by events
		if feeCharged(tx) {
			feesOf[tx.Signer] = feesOf[tx.Signer].Add(fee...)
		}
	}
	kinds := h.Trace.Blocks[len(h.Trace.Blocks)-1].Txs
	for i := range blk.Txs {
		if i < len(kinds) && len(kinds[i].Kind) > 4 && kinds[i].Kind[:4] == "c04." {
			if r := parseSwapReq(h.W, &blk.Txs[i], i); r != nil {
				byReq[r.Requester] = append(byReq[r.Requester], r)
			}
		}
	}
	denoms := h.W.Scenario.Denoms
	// sinks: who may have sent to them this block
	sinkReqs := map[string][]*swapReq{}
	for _, name := range sortedKeys(byReq) {
		for _, r := range byReq[name] {
			if r.Recipient != r.Sender {
				sinkReqs[r.Recipient] = append(sinkReqs[r.Recipient], r)
			}
		}
	}
	for _, name := range sortedKeys(byReq) {
		reqs := byReq[name]
		acc := h.W.accountByName(name)
		addr := acc.Addr.String()
		delta := map[string]sdkmath.Int{}
		for _, d := range denoms {
			delta[d] = s.BalOf(addr, d).Sub(prev.BalOf(addr, d)).Add(feesOf[name].AmountOf(d))
		}
		var accepted []*swapReq
		for _, r := range reqs {
			if r.Accepted {
				accepted = append(accepted, r)
			}
		}
		h.Labels["c04-requests"] += len(reqs)
		h.Labels["c04-accepted"] += len(accepted)
		// enumerate subsets of accepted requests: each applied 0 or 1 times
		explained := false
		executedCount := -1
		for mask := 0; mask < 1<<len(accepted) && !explained; mask++ {
			iv := map[string]*interval{}
			for _, d := range denoms {
				iv[d] = &interval{lo: sdkmath.ZeroInt(), hi: sdkmath.ZeroInt()}
			}
			for bi, r := range accepted {
				if mask&(1<<bi) == 0 {
					continue
				}
				in := iv[r.InDenom]
				if r.ExactIn {
					in.lo, in.hi = in.lo.Sub(r.Amount), in.hi.Sub(r.Amount)
				} else {
					in.lo, in.hi = in.lo.Sub(r.Limit), in.hi.SubRaw(1)
				}
				// intermediate denoms may only grow at the sender: an exact-out hop buys the pre-computed
				// input of the next hop and keeps what that hop does not need; an oracle-pool hop may pay a
				// rebalancing bonus from the pool's treasury on top of the amount that is fed into the next hop
				for _, m := range r.Mids {
					iv[m].hiInf = true
				}
				if r.Recipient == r.Sender {
					o := iv[r.OutDenom]
					if r.ExactIn {
						o.lo = o.lo.Add(r.Limit)
					} else {
						o.lo = o.lo.Add(r.Amount)
					}
					o.hiInf = true
				}
			}
			ok := true
			for _, d := range denoms {
				x := delta[d]
				if x.LT(iv[d].lo) || (!iv[d].hiInf && x.GT(iv[d].hi)) {
					ok = false
				}
			}
			if ok {
				explained = true
				executedCount = popcount(mask)
			}
		}
		if !explained {
			out = append(out, Violation{Sig: "C04/sender-delta-unexplained", Detail: fmt.Sprintf("requester %s balance change %s (fees added back) is not the effect of any subset of its accepted requests %s, each at most once and within its limits (height %d)", name, fmtDelta(delta, denoms), fmtReqs(reqs), s.Height)})
		} else {
			if executedCount < len(accepted) {
				h.Labels["c04-accepted-but-not-executed"] += len(accepted) - executedCount
			}
			if len(accepted) >= 2 {
				h.Labels["c04-multi-request-sender"]++
			}
		}
	}
	// sinks: balance increases only, each explained by requests naming them
	for _, sk := range h.W.Sinks {
		addr := sk.Addr.String()
		reqs := sinkReqs[addr]
		for _, d := range denoms {
			x := s.BalOf(addr, d).Sub(prev.BalOf(addr, d))
			if x.IsZero() {
				continue
			}
			if x.IsNegative() {
				out = append(out, Violation{Sig: "C04/sink-debited", Detail: fmt.Sprintf("passive recipient %s lost %s%s (height %d)", sk.Name, x, d, s.Height)})
				continue
			}
			// some accepted request must deliver d to this sink, and the total must be >= the minimum of at least one of them
			okOut := false
			for _, r := range reqs {
				if r.Accepted && r.OutDenom == d {
					min := r.Limit
					if !r.ExactIn {
						min = r.Amount
					}
					if x.GTE(min) {
						okOut = true
					}
				}
			}
			if !okOut {
				out = append(out, Violation{Sig: "C04/recipient-credit-unexplained", Detail: fmt.Sprintf("passive recipient %s received %s%s which no accepted request naming it delivers within its limit; requests: %s (height %d)", sk.Name, x, d, fmtReqs(reqs), s.Height)})
			}
		}
	}
	// nothing lingers: requesters of the previous block that are idle now must not move
	if idle, _ := h.Ext["c04-prev"].([]string); idle != nil {
		for _, name := range idle {
			if signed[name] {
				continue
			}
			acc := h.W.accountByName(name)
			for _, d := range denoms {
				if x := s.BalOf(acc.Addr.String(), d).Sub(prev.BalOf(acc.Addr.String(), d)); !x.IsZero() && !receivedFromOthers(blk, acc.Addr.String()) {
					out = append(out, Violation{Sig: "C04/lingering-request", Detail: fmt.Sprintf("%s sent nothing in this block but its %s balance moved by %s (height %d)", name, d, x, s.Height)})
				}
			}
		}
	}
	h.Ext["c04-prev"] = sortedKeys(byReq)
	if s.SwapInQ+s.SwapOutQ != 0 {
		out = append(out, Violation{Sig: "C04/queue-not-empty", Detail: fmt.Sprintf("%d exact-in and %d exact-out requests still stored after the block (height %d)", s.SwapInQ, s.SwapOutQ, s.Height)})
	}
	return out
}

func popcount(x int) int {
	n := 0
	for ; x != 0; x &= x - 1 {
		n++
	}
	return n
}

func fmtDelta(m map[string]sdkmath.Int, denoms []string) string {
	s := ""
	for _, d := range denoms {
		if !m[d].IsZero() {
			s += fmt.Sprintf("%s%s ", m[d], d)
		}
	}
	if s == "" {
		return "(none)"
	}
	return s
}

func fmtReqs(rs []*swapReq) string {
	s := ""
	for _, r := range rs {
		kind := "exact-out"
		if r.ExactIn {
			kind = "exact-in"
		}
		to := "self"
		if r.Recipient != r.Sender {
			to = "sink"
		}
		s += fmt.Sprintf("[%s %s->%s via %v amount=%s limit=%s to=%s accepted=%v] ", kind, r.InDenom, r.OutDenom, r.Mids, r.Amount, r.Limit, to, r.Accepted)
	}
	return s
}

// feeCharged: the ante handler emits a "tx" event with the fee attribute once the fee was deducted.
func feeCharged(tx *TxRecord) bool {
	for _, e := range tx.Events {
		if e.Type == "tx" {
			for _, a := range e.Attributes {
				if a.Key == "fee" && a.Value != "" {
					return true
				}
			}
		}
	}
	return false
}

// receivedFromOthers: a tx of another account (e.g. a swap naming this account as
// recipient, a bank send) may legitimately move an idle account's balance.
func receivedFromOthers(blk *BlockRecord, addr string) bool {
	for _, c := range TransfersTo(blk, addr) {
		if c.IsPositive() {
			// transfers caused by this block's own txs are attributable; the lingering check is only
			// meaningful when nobody sent anything to the account in this block
			return true
		}
	}
	return false
}
