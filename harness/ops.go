package harness

import (
	"fmt"
	"math/bits"
	"sort"

	sdkmath "cosmossdk.io/math"
	sdk "github.com/cosmos/cosmos-sdk/types"
	banktypes "github.com/cosmos/cosmos-sdk/x/bank/types"
	"pgregory.net/rapid"

	ammtypes "github.com/elys-network/elys/x/amm/types"
	ctypes "github.com/elys-network/elys/x/commitment/types"
	estakingtypes "github.com/elys-network/elys/x/estaking/types"
	lptypes "github.com/elys-network/elys/x/leveragelp/types"
	mctypes "github.com/elys-network/elys/x/masterchef/types"
	oracletypes "github.com/elys-network/elys/x/oracle/types"
	ptypes "github.com/elys-network/elys/x/parameter/types"
	perptypes "github.com/elys-network/elys/x/perpetual/types"
	sstypes "github.com/elys-network/elys/x/stablestake/types"
	tiertypes "github.com/elys-network/elys/x/tier/types"
	tstypes "github.com/elys-network/elys/x/tradeshield/types"
)

// G is the generation context for one tx: every random choice is a rapid draw.
type G struct {
	T *rapid.T
	H *History
	W *World
	S *Snapshot // committed state at block start
	// busy marks accounts that must not be used as signer in this block
	Busy map[string]bool
	// Force: while set, User() returns this account (further messages of a multi-message tx)
	Force *Account
	n     int
}

func (g *G) lbl(s string) string { g.n++; return fmt.Sprintf("%s#%d", s, g.n) }

// Int draws uniformly from [lo,hi]. rapid's IntRange is deliberately biased towards
// small values, which starves weighted choices; uniformity is rebuilt from fair bits
// (still inside rapid, so shrinking and replay work: bits shrink towards 0 = lo).
func (g *G) Int(label string, lo, hi int) int {
	return lo + UniformDraw(g.T, g.lbl(label), hi-lo+1)
}
func (g *G) Bool(label string) bool { return UniformDraw(g.T, g.lbl(label), 2) == 1 }
func (g *G) Pick(label string, n int) int {
	if n <= 1 {
		return 0
	}
	return UniformDraw(g.T, g.lbl(label), n)
}

// UniformDraw returns a uniform value in [0,n).
func UniformDraw(t *rapid.T, label string, n int) int {
	if n <= 1 {
		return 0
	}
	k := bits.Len(uint(n - 1))
	gen := rapid.SliceOfN(rapid.IntRange(0, 1), k, k)
	for try := 0; ; try++ {
		bs := gen.Draw(t, label)
		v := 0
		for _, b := range bs {
			v = v<<1 | b
		}
		if v < n {
			return v
		}
		if try > 64 {
			return v % n
		}
	}
}

func (g *G) User() *Account {
	if g.Force != nil {
		return g.Force
	}
	var free []*Account
	for _, a := range g.W.Accounts {
		if !g.Busy[a.Addr.String()] {
			free = append(free, a)
		}
	}
	if len(free) == 0 {
		return g.W.Accounts[0]
	}
	return free[g.Pick("user", len(free))]
}

// Amount draws an amount with boundary biasing around ref (a reserve, a balance…).
func (g *G) Amount(label string, ref sdkmath.Int) sdkmath.Int {
	if !ref.IsPositive() {
		ref = sdkmath.NewInt(1_000_000)
	}
	switch g.Int(label+"/class", 0, 13) {
	case 13:
		// everything but a dust remainder (1 .. 1e13 base units, log-uniform): a close / exit / unbond of this
		// size leaves a position or balance whose value rounds to zero in later pay-outs
		dust := sdkmath.NewInt(int64(g.Int(label+"/rem", 1, 9)))
		for i, n := 0, g.Int(label+"/remexp", 0, 12); i < n; i++ {
			dust = dust.MulRaw(10)
		}
		if dust.GTE(ref) {
			return maxInt(ref.SubRaw(1), sdkmath.OneInt())
		}
		return ref.Sub(dust)
	case 12:
		// exact simple fractions / multiples of the reference: the reserve ratio before/after becomes
		// exactly 2, 3/2, 4/3, 1/2, 1/3 ... (special-cased values of the power / logarithm routines)
		switch g.Int(label+"/frac", 0, 4) {
		case 0:
			return maxInt(ref.QuoRaw(2), sdkmath.OneInt())
		case 1:
			return maxInt(ref.QuoRaw(3), sdkmath.OneInt())
		case 2:
			return maxInt(ref.QuoRaw(4), sdkmath.OneInt())
		case 3:
			return ref.MulRaw(2)
		default:
			return ref.MulRaw(3)
		}
	case 0:
		return sdkmath.NewInt(1)
	case 1:
		return sdkmath.NewInt(int64(g.Int(label+"/dust", 2, 1000)))
	case 2, 3, 4, 5:
		// typical: ref * [1e-6, 1e-2]
		ppm := int64(g.Int(label+"/ppm", 1, 10_000))
		return maxInt(ref.MulRaw(ppm).QuoRaw(1_000_000), sdkmath.OneInt())
	case 6, 7:
		pct := int64(g.Int(label+"/pct", 1, 60))
		return maxInt(ref.MulRaw(pct).QuoRaw(100), sdkmath.OneInt())
	case 8:
		return maxInt(ref.SubRaw(int64(g.Int(label+"/below", 0, 2))), sdkmath.OneInt())
	case 9:
		return ref.AddRaw(int64(g.Int(label+"/above", 1, 2)))
	case 10:
		return ref.MulRaw(int64(g.Int(label+"/mult", 2, 20)))
	default:
		pct := int64(g.Int(label+"/pct2", 60, 99))
		return maxInt(ref.MulRaw(pct).QuoRaw(100), sdkmath.OneInt())
	}
}

// ModestAmount: mostly typical amounts (keeps the world alive for long histories).
func (g *G) ModestAmount(label string, ref sdkmath.Int) sdkmath.Int {
	if !ref.IsPositive() {
		ref = sdkmath.NewInt(1_000_000)
	}
	switch g.Int(label+"/class", 0, 9) {
	case 0:
		return sdkmath.NewInt(int64(g.Int(label+"/dust", 1, 1000)))
	case 1:
		pct := int64(g.Int(label+"/pct", 1, 30))
		return maxInt(ref.MulRaw(pct).QuoRaw(100), sdkmath.OneInt())
	default:
		ppm := int64(g.Int(label+"/ppm", 1, 20_000))
		return maxInt(ref.MulRaw(ppm).QuoRaw(1_000_000), sdkmath.OneInt())
	}
}

func maxInt(a, b sdkmath.Int) sdkmath.Int {
	if a.GT(b) {
		return a
	}
	return b
}
func minInt(a, b sdkmath.Int) sdkmath.Int {
	if a.LT(b) {
		return a
	}
	return b
}

// Op is one generated transaction.
type Op struct {
	Signer *Account
	Msg    sdk.Msg
	Fee    sdk.Coins
	Kind   string
	More   []sdk.Msg // further messages of the same (atomic) transaction; scenario ops only
}

type OpGen struct {
	Name   string
	Weight int
	Gen    func(g *G) *Op
}

func (g *G) pool() *ammtypes.Pool {
	if len(g.S.Pools) == 0 {
		return nil
	}
	return &g.S.Pools[g.Pick("pool", len(g.S.Pools))]
}

func (g *G) oraclePool() *ammtypes.Pool {
	var ps []*ammtypes.Pool
	for i := range g.S.Pools {
		if g.S.Pools[i].PoolParams.UseOracle {
			ps = append(ps, &g.S.Pools[i])
		}
	}
	if len(ps) == 0 {
		return nil
	}
	return ps[g.Pick("opool", len(ps))]
}

func (g *G) leveragePool() *lptypes.Pool {
	if len(g.S.LPPools) == 0 {
		return nil
	}
	return &g.S.LPPools[g.Pick("lppool", len(g.S.LPPools))]
}

func reserveOf(p *ammtypes.Pool, denom string) sdkmath.Int {
	for _, a := range p.PoolAssets {
		if a.Token.Denom == denom {
			return a.Token.Amount
		}
	}
	return sdkmath.ZeroInt()
}

func (g *G) recipient(sender *Account) string {
	if g.Int("rcpt", 0, 3) == 0 {
		if r := g.W.Accounts[g.Pick("rcptwho", len(g.W.Accounts))]; !g.Busy[r.Addr.String()] {
			return r.Addr.String()
		}
	}
	return sender.Addr.String()
}

// ---------------------------------------------------------------- amm

func genSwapIn(g *G) *Op {
	p := g.pool()
	if p == nil {
		return nil
	}
	u := g.User()
	i := g.Pick("in", 2)
	in, out := p.PoolAssets[i].Token, p.PoolAssets[1-i].Token
	amt := g.Amount("swapin", in.Amount)
	if bal := g.S.BalOf(u.Addr.String(), in.Denom); g.W.Scenario.ModestUser && u == g.W.Accounts[len(g.W.Accounts)-1] && amt.GT(bal) && bal.GT(sdkmath.NewInt(10)) {
		amt = bal.QuoRaw(int64(g.Int("modestpart", 2, 10))) // a user of modest means trades what it has
	}
	minOut := sdkmath.OneInt()
	if g.Int("minout", 0, 5) == 0 {
		minOut = g.Amount("minoutamt", out.Amount)
	}
	return &Op{Signer: u, Kind: "amm.swap_in", Msg: &ammtypes.MsgSwapExactAmountIn{
		Sender: u.Addr.String(), Routes: []ammtypes.SwapAmountInRoute{{PoolId: p.PoolId, TokenOutDenom: out.Denom}},
		TokenIn: sdk.NewCoin(in.Denom, amt), TokenOutMinAmount: minOut, Recipient: g.recipient(u)}}
}

func genSwapOut(g *G) *Op {
	p := g.pool()
	if p == nil {
		return nil
	}
	u := g.User()
	i := g.Pick("in", 2)
	in, out := p.PoolAssets[i].Token, p.PoolAssets[1-i].Token
	amt := g.Amount("swapout", out.Amount)
	maxIn := in.Amount.MulRaw(1000)
	if g.Int("maxin", 0, 5) == 0 {
		maxIn = g.Amount("maxinamt", in.Amount)
	}
	return &Op{Signer: u, Kind: "amm.swap_out", Msg: &ammtypes.MsgSwapExactAmountOut{
		Sender: u.Addr.String(), Routes: []ammtypes.SwapAmountOutRoute{{PoolId: p.PoolId, TokenInDenom: in.Denom}},
		TokenOut: sdk.NewCoin(out.Denom, amt), TokenInMaxAmount: maxIn, Recipient: g.recipient(u)}}
}

// two-hop routes through the shared base currency
func (g *G) twoHop() (p1, p2 *ammtypes.Pool, a, mid, b string) {
	var cands [][2]*ammtypes.Pool
	for i := range g.S.Pools {
		for j := range g.S.Pools {
			if i == j {
				continue
			}
			cands = append(cands, [2]*ammtypes.Pool{&g.S.Pools[i], &g.S.Pools[j]})
		}
	}
	for len(cands) > 0 {
		k := g.Pick("hop", len(cands))
		x, y := cands[k][0], cands[k][1]
		for _, ax := range x.PoolAssets {
			for _, ay := range y.PoolAssets {
				if ax.Token.Denom == ay.Token.Denom {
					mid = ax.Token.Denom
				}
			}
		}
		if mid != "" {
			for _, ax := range x.PoolAssets {
				if ax.Token.Denom != mid {
					a = ax.Token.Denom
				}
			}
			for _, ay := range y.PoolAssets {
				if ay.Token.Denom != mid {
					b = ay.Token.Denom
				}
			}
			if a != "" && b != "" && a != b {
				return x, y, a, mid, b
			}
		}
		cands = append(cands[:k], cands[k+1:]...)
		mid, a, b = "", "", ""
	}
	return nil, nil, "", "", ""
}

func genSwapIn2(g *G) *Op {
	p1, p2, a, mid, b := g.twoHop()
	if p1 == nil {
		return nil
	}
	u := g.User()
	amt := g.Amount("swapin2", reserveOf(p1, a))
	return &Op{Signer: u, Kind: "amm.swap_in_2hop", Msg: &ammtypes.MsgSwapExactAmountIn{
		Sender: u.Addr.String(), Routes: []ammtypes.SwapAmountInRoute{{PoolId: p1.PoolId, TokenOutDenom: mid}, {PoolId: p2.PoolId, TokenOutDenom: b}},
		TokenIn: sdk.NewCoin(a, amt), TokenOutMinAmount: sdkmath.OneInt(), Recipient: g.recipient(u)}}
}

func genSwapOut2(g *G) *Op {
	p1, p2, a, mid, b := g.twoHop()
	if p1 == nil {
		return nil
	}
	u := g.User()
	amt := g.Amount("swapout2", reserveOf(p2, b))
	return &Op{Signer: u, Kind: "amm.swap_out_2hop", Msg: &ammtypes.MsgSwapExactAmountOut{
		Sender: u.Addr.String(), Routes: []ammtypes.SwapAmountOutRoute{{PoolId: p1.PoolId, TokenInDenom: a}, {PoolId: p2.PoolId, TokenInDenom: mid}},
		TokenOut: sdk.NewCoin(b, amt), TokenInMaxAmount: reserveOf(p1, a).MulRaw(1000), Recipient: g.recipient(u)}}
}

func genSwapByDenom(g *G) *Op {
	p := g.pool()
	if p == nil {
		return nil
	}
	u := g.User()
	i := g.Pick("in", 2)
	in, out := p.PoolAssets[i].Token, p.PoolAssets[1-i].Token
	if g.Bool("exactin") {
		amt := g.Amount("sbd", in.Amount)
		return &Op{Signer: u, Kind: "amm.swap_by_denom", Msg: &ammtypes.MsgSwapByDenom{Sender: u.Addr.String(),
			Amount: sdk.NewCoin(in.Denom, amt), MinAmount: sdk.NewCoin(out.Denom, sdkmath.ZeroInt()), MaxAmount: sdk.NewCoin(in.Denom, sdkmath.ZeroInt()),
			DenomIn: in.Denom, DenomOut: out.Denom, Recipient: g.recipient(u)}}
	}
	amt := g.Amount("sbd", out.Amount)
	return &Op{Signer: u, Kind: "amm.swap_by_denom", Msg: &ammtypes.MsgSwapByDenom{Sender: u.Addr.String(),
		Amount: sdk.NewCoin(out.Denom, amt), MinAmount: sdk.NewCoin(out.Denom, sdkmath.ZeroInt()), MaxAmount: sdk.NewCoin(in.Denom, in.Amount.MulRaw(1000)),
		DenomIn: in.Denom, DenomOut: out.Denom, Recipient: g.recipient(u)}}
}

func genJoin(g *G) *Op {
	p := g.pool()
	if p == nil {
		return nil
	}
	u := g.User()
	var maxIn sdk.Coins
	single := g.Int("single", 0, 3) == 0
	// share out from a fraction of the pool
	frac := g.ModestAmount("joinfrac", sdkmath.NewInt(1_000_000)) // ppm of pool (capped at 30%)
	shares := p.TotalShares.Amount.Mul(frac).QuoRaw(1_000_000)
	if single {
		i := g.Pick("joinasset", len(p.PoolAssets))
		a := p.PoolAssets[i].Token
		maxIn = sdk.NewCoins(sdk.NewCoin(a.Denom, maxInt(a.Amount.Mul(frac).QuoRaw(1_000_000), sdkmath.OneInt())))
		shares = sdkmath.OneInt()
		if !p.PoolParams.UseOracle {
			shares = sdkmath.ZeroInt()
		}
		// the requested share amount is a lower bound the sender states: mostly the minimum, sometimes about what
		// the deposit is worth, sometimes (far) more than that
		switch g.Int("singleshares", 0, 5) {
		case 0:
			shares = p.TotalShares.Amount.Mul(frac).QuoRaw(1_000_000).QuoRaw(int64(len(p.PoolAssets)))
		case 1:
			shares = p.TotalShares.Amount.Mul(frac).QuoRaw(1_000_000).MulRaw(int64(g.Int("singleinfl", 1, 10)))
		}
	} else {
		slack := int64(g.Int("joinslack", 100, 130))
		if g.Int("tight", 0, 6) == 0 {
			slack = int64(g.Int("joinslack2", 90, 100))
		}
		for _, a := range p.PoolAssets {
			maxIn = maxIn.Add(sdk.NewCoin(a.Token.Denom, maxInt(a.Token.Amount.Mul(frac).QuoRaw(1_000_000).MulRaw(slack).QuoRaw(100).AddRaw(1), sdkmath.OneInt())))
		}
		if g.Int("shareskew", 0, 4) == 0 {
			shares = sdkmath.OneInt()
		}
	}
	if !shares.IsPositive() {
		shares = sdkmath.OneInt()
	}
	return &Op{Signer: u, Kind: "amm.join", Msg: &ammtypes.MsgJoinPool{Sender: u.Addr.String(), PoolId: p.PoolId, MaxAmountsIn: maxIn, ShareAmountOut: shares}}
}

func genExit(g *G) *Op {
	p := g.pool()
	if p == nil {
		return nil
	}
	// choose a user who has committed shares when possible
	shareDenom := ammtypes.GetPoolShareDenom(p.PoolId)
	var holders []*Account
	for _, a := range append(append([]*Account{}, g.W.Accounts...), g.W.Admin) {
		if g.S.CommittedOf(a.Addr.String(), shareDenom).IsPositive() && !g.Busy[a.Addr.String()] {
			holders = append(holders, a)
		}
	}
	var u *Account
	if len(holders) > 0 && g.Int("exitholder", 0, 9) > 0 {
		u = holders[g.Pick("exitwho", len(holders))]
	} else {
		u = g.User()
	}
	have := g.S.CommittedOf(u.Addr.String(), shareDenom)
	var shares sdkmath.Int
	switch g.Int("exitclass", 0, 7) {
	case 0:
		shares = have
	case 1:
		shares = g.Amount("exitamt", p.TotalShares.Amount)
	default:
		shares = g.ModestAmount("exitamt", have)
	}
	if !shares.IsPositive() {
		shares = sdkmath.OneInt()
	}
	out := ""
	if p.PoolParams.UseOracle && g.Int("exitsingle", 0, 2) == 0 {
		out = p.PoolAssets[g.Pick("exitdenom", len(p.PoolAssets))].Token.Denom
	}
	if p.PoolParams.UseOracle && g.Int("exitwhole", 0, 7) == 0 {
		// a single-asset exit worth exactly one whole reserve of that asset (give or take a unit of shares): the
		// share of the pool's value that this reserve represents
		a := p.PoolAssets[g.Pick("exitwholedenom", len(p.PoolAssets))]
		tvl := sdkmath.LegacyZeroDec()
		for _, x := range p.PoolAssets {
			tvl = tvl.Add(g.priceOf(x.Token.Denom).MulInt(x.Token.Amount))
		}
		if tvl.IsPositive() {
			s0 := g.priceOf(a.Token.Denom).MulInt(a.Token.Amount).MulInt(p.TotalShares.Amount).Quo(tvl).TruncateInt().AddRaw(int64(g.Int("exitwholed", -1, 1)))
			if s0.IsPositive() && s0.LTE(have) {
				shares, out = s0, a.Token.Denom
				g.H.Labels["exit-worth-a-whole-reserve"]++
			}
		}
	}
	return &Op{Signer: u, Kind: "amm.exit", Msg: &ammtypes.MsgExitPool{Sender: u.Addr.String(), PoolId: p.PoolId, MinAmountsOut: sdk.Coins{}, ShareAmountIn: shares, TokenOutDenom: out}}
}

// ---------------------------------------------------------------- bank

func genSendToPool(g *G) *Op {
	p := g.pool()
	if p == nil {
		return nil
	}
	u := g.User()
	a := p.PoolAssets[g.Pick("asset", len(p.PoolAssets))].Token
	amt := g.ModestAmount("donate", a.Amount)
	return &Op{Signer: u, Kind: "bank.send_to_pool", Msg: &banktypes.MsgSend{FromAddress: u.Addr.String(), ToAddress: p.Address, Amount: sdk.NewCoins(sdk.NewCoin(a.Denom, amt))}}
}

func genSendUser(g *G) *Op {
	u := g.User()
	to := g.W.Accounts[g.Pick("to", len(g.W.Accounts))]
	if g.Busy[to.Addr.String()] {
		to = u
	}
	d := g.W.Scenario.Denoms[g.Pick("denom", len(g.W.Scenario.Denoms))]
	amt := g.ModestAmount("send", g.S.BalOf(u.Addr.String(), d))
	return &Op{Signer: u, Kind: "bank.send", Msg: &banktypes.MsgSend{FromAddress: u.Addr.String(), ToAddress: to.Addr.String(), Amount: sdk.NewCoins(sdk.NewCoin(d, amt))}}
}

// ---------------------------------------------------------------- stablestake

func genBond(g *G) *Op {
	u := g.User()
	ref := sdkmath.NewInt(2_000_000_000_000)
	amt := g.ModestAmount("bond", ref)
	if g.Int("bigbond", 0, 3) == 0 {
		amt = g.Amount("bondbig", ref)
	}
	return &Op{Signer: u, Kind: "stablestake.bond", Msg: &sstypes.MsgBond{Creator: u.Addr.String(), Amount: amt}}
}

func genUnbond(g *G) *Op {
	shareDenom := sstypes.GetShareDenom()
	var holders []*Account
	for _, a := range g.W.Accounts {
		if g.S.CommittedOf(a.Addr.String(), shareDenom).IsPositive() && !g.Busy[a.Addr.String()] {
			holders = append(holders, a)
		}
	}
	u := g.User()
	if len(holders) > 0 && g.Int("unbondholder", 0, 9) > 0 {
		u = holders[g.Pick("who", len(holders))]
	}
	have := g.S.CommittedOf(u.Addr.String(), shareDenom)
	var amt sdkmath.Int
	switch g.Int("unbondclass", 0, 5) {
	case 0:
		amt = have
	case 1:
		amt = g.Amount("unbond", have)
	default:
		amt = g.ModestAmount("unbond", have)
	}
	if !amt.IsPositive() {
		amt = sdkmath.OneInt()
	}
	return &Op{Signer: u, Kind: "stablestake.unbond", Msg: &sstypes.MsgUnbond{Creator: u.Addr.String(), Amount: amt}}
}

// ---------------------------------------------------------------- leveragelp

func (g *G) leverage(max int64) sdkmath.LegacyDec {
	switch g.Int("levclass", 0, 7) {
	case 0:
		return sdkmath.LegacyOneDec()
	case 1:
		return sdkmath.LegacyMustNewDecFromStr("1.0001")
	case 2:
		return sdkmath.LegacyNewDec(max)
	case 3:
		return sdkmath.LegacyNewDec(max + int64(g.Int("levover", 1, 5)))
	default:
		// 1.1 .. max in tenths
		return sdkmath.LegacyNewDecWithPrec(int64(g.Int("lev10", 11, int(max*10))), 1)
	}
}

// lpStopLoss: half of the time an arbitrary level, otherwise a level placed relative to the pool's LP token
// price as the chain computes it now: 0.1 % – 10 % below it (a healthy position one small move away from its
// trigger) or just above it (eligible at once).
func (g *G) lpStopLoss(poolID uint64) sdkmath.LegacyDec {
	if g.Bool("sl/rel") {
		if p, found := g.W.App.AmmKeeper.GetPool(g.W.ReadCtx(), poolID); found {
			if price, err := p.LpTokenPrice(g.W.ReadCtx(), g.W.App.OracleKeeper, g.W.App.AccountedPoolKeeper); err == nil && price.IsPositive() {
				bp := int64(g.Int("sl/bp", 10, 1000)) // basis points
				if g.Int("sl/above", 0, 4) == 0 {
					return price.MulInt64(10000 + bp/10).QuoInt64(10000)
				}
				return price.MulInt64(10000 - bp).QuoInt64(10000)
			}
		}
	}
	return sdkmath.LegacyNewDecWithPrec(int64(g.Int("slp", 1, 300)), 2)
}

func genLPOpen(g *G) *Op {
	lp := g.leveragePool()
	if lp == nil {
		return nil
	}
	u := g.User()
	amt := g.ModestAmount("lpcoll", sdkmath.NewInt(50_000_000_000))
	sl := sdkmath.LegacyZeroDec()
	if g.Int("sl", 0, 3) == 0 {
		// stop-loss price is an LP share price; typical 0.5..1.5
		sl = g.lpStopLoss(lp.AmmPoolId)
	}
	asset := ptypes.BaseCurrency
	if g.Int("wrongasset", 0, 15) == 0 {
		asset = ptypes.ATOM
	}
	return &Op{Signer: u, Kind: "leveragelp.open", Msg: &lptypes.MsgOpen{Creator: u.Addr.String(), CollateralAsset: asset,
		CollateralAmount: amt, AmmPoolId: lp.AmmPoolId, Leverage: g.leverage(10), StopLossPrice: sl}}
}

func (g *G) lpPosition(preferOwn bool) (*lptypes.Position, *Account) {
	if len(g.S.LPPositions) == 0 {
		return nil, nil
	}
	var cands []*lptypes.Position
	for i := range g.S.LPPositions {
		p := &g.S.LPPositions[i]
		if a := g.W.ByAddr[p.Address]; a != nil && !g.Busy[p.Address] {
			cands = append(cands, p)
		}
	}
	if len(cands) == 0 {
		return nil, nil
	}
	p := cands[g.Pick("lppos", len(cands))]
	return p, g.W.ByAddr[p.Address]
}

func genLPClose(g *G) *Op {
	p, owner := g.lpPosition(true)
	if p == nil {
		return nil
	}
	var amt sdkmath.Int
	switch g.Int("closeclass", 0, 4) {
	case 0, 1:
		amt = p.LeveragedLpAmount
	case 2:
		amt = g.Amount("closeamt", p.LeveragedLpAmount)
	default:
		amt = maxInt(p.LeveragedLpAmount.MulRaw(int64(g.Int("closepct", 1, 99))).QuoRaw(100), sdkmath.OneInt())
	}
	signer := owner
	if g.Int("foreign", 0, 9) == 0 {
		signer = g.User()
	}
	return &Op{Signer: signer, Kind: "leveragelp.close", Msg: &lptypes.MsgClose{Creator: signer.Addr.String(), Id: p.Id, LpAmount: amt}}
}

func genLPUpdateStopLoss(g *G) *Op {
	p, owner := g.lpPosition(true)
	if p == nil {
		return nil
	}
	price := g.lpStopLoss(p.AmmPoolId)
	signer := owner
	if g.Int("foreign", 0, 9) == 0 {
		signer = g.User()
	}
	return &Op{Signer: signer, Kind: "leveragelp.update_stop_loss", Msg: &lptypes.MsgUpdateStopLoss{Creator: signer.Addr.String(), Position: p.Id, Price: price}}
}

func genLPClaim(g *G) *Op {
	p, owner := g.lpPosition(true)
	if p == nil {
		return nil
	}
	return &Op{Signer: owner, Kind: "leveragelp.claim_rewards", Msg: &lptypes.MsgClaimRewards{Sender: owner.Addr.String(), Ids: []uint64{p.Id}}}
}

func genLPClosePositions(g *G) *Op {
	if len(g.S.LPPositions) == 0 {
		return nil
	}
	msg := &lptypes.MsgClosePositions{Creator: g.W.Bot.Addr.String()}
	n := g.Int("ncp", 1, 4)
	for i := 0; i < n; i++ {
		p := g.S.LPPositions[g.Pick("cppos", len(g.S.LPPositions))]
		req := &lptypes.PositionRequest{Address: p.Address, Id: p.Id}
		if g.Int("bogus", 0, 9) == 0 {
			req.Id += uint64(g.Int("bogusid", 1, 50))
		}
		if g.Bool("liq") {
			msg.Liquidate = append(msg.Liquidate, req)
		} else {
			msg.StopLoss = append(msg.StopLoss, req)
		}
	}
	return &Op{Signer: g.W.Bot, Kind: "leveragelp.close_positions", Msg: msg}
}

// genFeedExternalLiquidity: the price feeder reports the depth of external markets for an oracle pool's
// assets; the pool then scales its slippage by the resulting external-liquidity ratio (>= 1).
func genFeedExternalLiquidity(g *G) *Op {
	p := g.oraclePool()
	if p == nil {
		return nil
	}
	f := g.W.Feeder
	var info []ammtypes.AssetAmountDepth
	depths := []string{"0.001", "0.01", "0.02", "0.1", "0.5", "0.99", "1", "1.5"}
	for _, a := range p.PoolAssets {
		if g.Int("el/skip", 0, 3) == 0 {
			continue
		}
		mult := []int64{0, 1, 2, 10, 1000}[g.Pick("el/mult", 5)]
		amt := a.Token.Amount.ToLegacyDec().MulInt64(mult).QuoInt64(2)
		info = append(info, ammtypes.AssetAmountDepth{Asset: displayOf(a.Token.Denom), Amount: amt, Depth: sdkmath.LegacyMustNewDecFromStr(depths[g.Pick("el/depth", len(depths))])})
	}
	signer := f
	if g.Int("el/nonfeeder", 0, 9) == 0 {
		signer = g.User()
	}
	return &Op{Signer: signer, Kind: "amm.feed_external_liquidity", Msg: &ammtypes.MsgFeedMultipleExternalLiquidity{Sender: signer.Addr.String(),
		Liquidity: []ammtypes.ExternalLiquidity{{PoolId: p.PoolId, AmountDepthInfo: info}}}}
}

// genCreatePool: the admin (who is on the pool creators' allow-list) lists a further pool in the middle of the
// history: two of the funded denoms, oracle or constant-product.
func genCreatePool(g *G) *Op {
	if len(g.S.Pools) >= 4 {
		return nil
	}
	a := g.W.Admin
	if g.Busy[a.Addr.String()] {
		return nil
	}
	ds := g.W.Scenario.Denoms
	i := g.Pick("cp/d1", len(ds))
	j := (i + 1 + g.Pick("cp/d2", len(ds)-1)) % len(ds)
	d1, d2 := ds[i], ds[j]
	if d1 > d2 {
		d1, d2 = d2, d1
	}
	amt := func(l string) sdkmath.Int { return sdkmath.NewInt(int64(1_000_000 + g.Int(l, 0, 2_000_000_000))) }
	fee := []string{"0", "0.001", "0.003", "0.02"}[g.Pick("cp/fee", 4)]
	w1 := int64([]int{50, 50, 20, 80}[g.Pick("cp/w", 4)])
	return &Op{Signer: a, Kind: "amm.create_pool", Msg: &ammtypes.MsgCreatePool{Sender: a.Addr.String(),
		PoolParams: ammtypes.PoolParams{UseOracle: g.Bool("cp/oracle"), SwapFee: sdkmath.LegacyMustNewDecFromStr(fee), FeeDenom: ptypes.BaseCurrency},
		PoolAssets: []ammtypes.PoolAsset{
			{Token: sdk.NewCoin(d1, amt("cp/a1")), Weight: sdkmath.NewInt(w1), ExternalLiquidityRatio: sdkmath.LegacyOneDec()},
			{Token: sdk.NewCoin(d2, amt("cp/a2")), Weight: sdkmath.NewInt(100 - w1), ExternalLiquidityRatio: sdkmath.LegacyOneDec()}}}}
}

// genSetPortfolio: anyone may ask the tier module to (re)compute an account's portfolio; the resulting
// membership tier gives that account a discount on swap fees from then on.
func genSetPortfolio(g *G) *Op {
	u, target := g.User(), g.User()
	return &Op{Signer: u, Kind: "tier.set_portfolio", Msg: &tiertypes.MsgSetPortfolio{Creator: u.Addr.String(), User: target.Addr.String()}}
}

// genSendToBurn: an explicit burn – the owner sends tokens to the zero address, from where the burner module
// destroys them at the end of its epoch (only denoms that have bank metadata; others just stay there).
func genSendToBurn(g *G) *Op {
	u := g.User()
	ds := g.W.Scenario.Denoms
	d := ds[g.Pick("burndenom", len(ds))]
	amt := g.ModestAmount("burnamt", sdkmath.NewInt(1_000_000_000))
	coins := sdk.NewCoins(sdk.NewCoin(d, amt))
	if g.Bool("burnmulti") {
		// several denoms at once: the burner then has more than one denom to destroy at the same epoch end
		for _, d2 := range ds {
			if d2 != d && g.Bool("burnalso") {
				coins = coins.Add(sdk.NewCoin(d2, g.ModestAmount("burnamt2", sdkmath.NewInt(1_000_000_000))))
			}
		}
	}
	return &Op{Signer: u, Kind: "bank.send_to_burn", Msg: &banktypes.MsgSend{FromAddress: u.Addr.String(), ToAddress: sdk.AccAddress(make([]byte, 20)).String(), Amount: coins}}
}

// ---------------------------------------------------------------- perpetual

func (g *G) priceOf(denom string) sdkmath.LegacyDec {
	disp := displayOf(denom)
	var best *oracletypes.Price
	for i := range g.S.Prices {
		p := &g.S.Prices[i]
		if p.Asset == disp && p.Source == "elys" && (best == nil || p.Timestamp >= best.Timestamp) {
			best = p
		}
	}
	if best == nil {
		return sdkmath.LegacyZeroDec()
	}
	return best.Price
}

func genPerpOpen(g *G) *Op {
	if len(g.S.PerpPools) == 0 {
		return nil
	}
	pp := g.S.PerpPools[g.Pick("perppool", len(g.S.PerpPools))]
	amm := g.S.Pool(pp.AmmPoolId)
	if amm == nil {
		return nil
	}
	trading := ""
	for _, a := range amm.PoolAssets {
		if a.Token.Denom != ptypes.BaseCurrency {
			trading = a.Token.Denom
		}
	}
	u := g.User()
	price := g.priceOf(trading)
	if price.IsZero() {
		price = sdkmath.LegacyOneDec()
	}
	long := g.Bool("long")
	pos := perptypes.Position_SHORT
	collDenom := ptypes.BaseCurrency
	if long {
		pos = perptypes.Position_LONG
		if g.Bool("collTrading") {
			collDenom = trading
		}
	}
	ref := sdkmath.NewInt(5_000_000_000)
	if collDenom == trading {
		ref = sdkmath.NewInt(1_000_000_000)
	}
	amt := g.ModestAmount("perpcoll", ref)
	if g.Int("perpcoll/whale", 0, 7) == 0 {
		// a position that matters to the pool: collateral of 0.5 % – 3 % of the reserve of the collateral asset
		if r := reserveOf(amm, collDenom); r.IsPositive() {
			amt = maxInt(r.MulRaw(int64(g.Int("perpcoll/permille", 5, 30))).QuoRaw(1000), sdkmath.OneInt())
		}
	}
	var lev sdkmath.LegacyDec
	switch g.Int("plev", 0, 7) {
	case 0:
		lev = sdkmath.LegacyZeroDec() // add collateral
	case 1:
		lev = sdkmath.LegacyMustNewDecFromStr("1.01")
	case 2:
		lev = sdkmath.LegacyNewDec(int64(g.Int("plevhi", 20, 30)))
	default:
		lev = sdkmath.LegacyNewDecWithPrec(int64(g.Int("plev10", 11, 100)), 1)
	}
	var tp, sl sdkmath.LegacyDec
	sl = sdkmath.LegacyZeroDec()
	if long {
		tp = price.MulInt64(int64(g.Int("tpl", 101, 1150))).QuoInt64(100)
		if g.Int("hassl", 0, 2) == 0 {
			sl = price.MulInt64(int64(g.Int("sll", 50, 101))).QuoInt64(100)
		}
	} else {
		tp = price.MulInt64(int64(g.Int("tps", 5, 100))).QuoInt64(100)
		if g.Int("hassl", 0, 2) == 0 {
			sl = price.MulInt64(int64(g.Int("sls", 99, 200))).QuoInt64(100)
		}
	}
	return &Op{Signer: u, Kind: "perpetual.open", Msg: &perptypes.MsgOpen{Creator: u.Addr.String(), Position: pos, Leverage: lev,
		TradingAsset: trading, Collateral: sdk.NewCoin(collDenom, amt), TakeProfitPrice: tp, StopLossPrice: sl, PoolId: pp.AmmPoolId}}
}

func (g *G) mtp() (*perptypes.MTP, *Account) {
	var cands []*perptypes.MTP
	for i := range g.S.MTPs {
		m := &g.S.MTPs[i]
		if a := g.W.ByAddr[m.Address]; a != nil && !g.Busy[m.Address] {
			cands = append(cands, m)
		}
	}
	if len(cands) == 0 {
		return nil, nil
	}
	m := cands[g.Pick("mtp", len(cands))]
	return m, g.W.ByAddr[m.Address]
}

func genPerpClose(g *G) *Op {
	m, owner := g.mtp()
	if m == nil {
		return nil
	}
	var amt sdkmath.Int
	switch g.Int("pcloseclass", 0, 4) {
	case 0, 1:
		amt = m.Custody
	case 2:
		amt = g.Amount("pcloseamt", m.Custody)
	default:
		amt = maxInt(m.Custody.MulRaw(int64(g.Int("pclosepct", 1, 99))).QuoRaw(100), sdkmath.OneInt())
	}
	signer := owner
	if g.Int("foreign", 0, 9) == 0 {
		signer = g.User()
	}
	return &Op{Signer: signer, Kind: "perpetual.close", Msg: &perptypes.MsgClose{Creator: signer.Addr.String(), Id: m.Id, Amount: amt}}
}

func genPerpUpdateSL(g *G) *Op {
	m, owner := g.mtp()
	if m == nil {
		return nil
	}
	price := g.priceOf(m.TradingAsset)
	if price.IsZero() {
		price = sdkmath.LegacyOneDec()
	}
	p := price.MulInt64(int64(g.Int("slpct", 50, 200))).QuoInt64(100)
	signer := owner
	if g.Int("foreign", 0, 9) == 0 {
		signer = g.User()
	}
	return &Op{Signer: signer, Kind: "perpetual.update_stop_loss", Msg: &perptypes.MsgUpdateStopLoss{Creator: signer.Addr.String(), Id: m.Id, Price: p}}
}

func genPerpUpdateTP(g *G) *Op {
	m, owner := g.mtp()
	if m == nil {
		return nil
	}
	price := g.priceOf(m.TradingAsset)
	if price.IsZero() {
		price = sdkmath.LegacyOneDec()
	}
	p := price.MulInt64(int64(g.Int("tppct", 5, 1150))).QuoInt64(100)
	signer := owner
	if g.Int("foreign", 0, 9) == 0 {
		signer = g.User()
	}
	return &Op{Signer: signer, Kind: "perpetual.update_take_profit", Msg: &perptypes.MsgUpdateTakeProfitPrice{Creator: signer.Addr.String(), Id: m.Id, Price: p}}
}

func genPerpClosePositions(g *G) *Op {
	if len(g.S.MTPs) == 0 {
		return nil
	}
	msg := &perptypes.MsgClosePositions{Creator: g.W.Bot.Addr.String()}
	n := g.Int("ncp", 1, 4)
	for i := 0; i < n; i++ {
		m := g.S.MTPs[g.Pick("cpmtp", len(g.S.MTPs))]
		req := perptypes.PositionRequest{Address: m.Address, Id: m.Id}
		if g.Int("bogus", 0, 9) == 0 {
			req.Id += uint64(g.Int("bogusid", 1, 50))
		}
		switch g.Int("list", 0, 2) {
		case 0:
			msg.Liquidate = append(msg.Liquidate, req)
		case 1:
			msg.StopLoss = append(msg.StopLoss, req)
		default:
			msg.TakeProfit = append(msg.TakeProfit, req)
		}
	}
	// the same request several times over (in its list, or across lists)
	if g.Int("cpdup", 0, 3) == 0 {
		k := 1 + g.Int("cpdupn", 1, 4)
		switch {
		case len(msg.Liquidate) > 0:
			for i := 0; i < k; i++ {
				msg.Liquidate = append(msg.Liquidate, msg.Liquidate[0])
			}
		case len(msg.StopLoss) > 0:
			for i := 0; i < k; i++ {
				msg.StopLoss = append(msg.StopLoss, msg.StopLoss[0])
			}
		case len(msg.TakeProfit) > 0:
			for i := 0; i < k; i++ {
				msg.TakeProfit = append(msg.TakeProfit, msg.TakeProfit[0])
			}
		}
	}
	return &Op{Signer: g.W.Bot, Kind: "perpetual.close_positions", Msg: msg}
}

// ---------------------------------------------------------------- oracle

// genPriceMove feeds a new price for one traded asset: random walk with occasional jumps.
func genPriceMove(g *G) *Op {
	assets := []string{"ATOM", "ELYS"}
	if g.Int("stable", 0, 4) == 0 {
		assets = []string{"USDC", "USDT"}
	}
	a := assets[g.Pick("passet", len(assets))]
	if a == "ELYS" && g.W.Scenario.PoolPricedElys {
		a = "ATOM" // the native token has no feed in this world
	}
	var cur sdkmath.LegacyDec
	for _, d := range g.W.Scenario.Denoms {
		if displayOf(d) == a {
			cur = g.priceOf(d)
		}
	}
	if (cur.IsNil() || cur.IsZero()) && g.H != nil {
		if lp, ok := g.H.LastPrice[a]; ok {
			cur = lp
		}
	}
	if cur.IsNil() || cur.IsZero() {
		cur = sdkmath.LegacyOneDec()
	}
	var pct int
	switch g.Int("moveclass", 0, 9) {
	case 0:
		pct = g.Int("jump", -40, 40)
	case 1:
		pct = g.Int("crash", -70, -20)
	default:
		pct = g.Int("walk", -3, 3)
	}
	if a == "USDC" || a == "USDT" {
		pct = g.Int("stablewalk", -2, 2)
	}
	np := cur.MulInt64(int64(100 + pct)).QuoInt64(100)
	if !np.IsPositive() {
		np = cur
	}
	f := g.W.Feeder
	return &Op{Signer: f, Kind: "oracle.feed_price", Msg: &oracletypes.MsgFeedPrice{Provider: f.Addr.String(),
		FeedPrice: oracletypes.FeedPrice{Asset: a, Price: np, Source: "elys"}}}
}

// genRefreshPrices re-feeds every current price unchanged (keeps prices live).
func genRefreshPrices(g *G) *Op {
	f := g.W.Feeder
	msg := &oracletypes.MsgFeedMultiplePrices{Creator: f.Addr.String()}
	for _, d := range g.W.Scenario.Denoms {
		p := g.priceOf(d)
		if !p.IsPositive() && g.H != nil {
			// expired: fall back to the last price the harness saw (feeder comes back after an outage)
			if lp, ok := g.H.LastPrice[displayOf(d)]; ok {
				p = lp
			}
		}
		if p.IsPositive() {
			msg.FeedPrices = append(msg.FeedPrices, oracletypes.FeedPrice{Asset: displayOf(d), Price: p, Source: "elys"})
		}
	}
	if len(msg.FeedPrices) == 0 {
		return nil
	}
	return &Op{Signer: f, Kind: "oracle.refresh", Msg: msg}
}

func genFeedByNonFeeder(g *G) *Op {
	u := g.User()
	return &Op{Signer: u, Kind: "oracle.feed_nonfeeder", Msg: &oracletypes.MsgFeedPrice{Provider: u.Addr.String(),
		FeedPrice: oracletypes.FeedPrice{Asset: "ATOM", Price: sdkmath.LegacyNewDec(int64(g.Int("fakeprice", 1, 1000))), Source: "elys"}}}
}

// ---------------------------------------------------------------- masterchef / commitment

func genMCClaim(g *G) *Op {
	u := g.User()
	var ids []uint64
	for _, p := range g.S.Pools {
		if g.Bool("claimpool") {
			ids = append(ids, p.PoolId)
		}
	}
	if g.Bool("claimusdc") || len(ids) == 0 {
		ids = append(ids, uint64(sstypes.PoolId))
	}
	return &Op{Signer: u, Kind: "masterchef.claim", Msg: &mctypes.MsgClaimRewards{Sender: u.Addr.String(), PoolIds: ids}}
}

func genAddExternalIncentive(g *G) *Op {
	p := g.pool()
	if p == nil {
		return nil
	}
	u := g.User()
	from := g.S.Height + int64(g.Int("incfrom", 0, 5))
	to := from + int64(g.Int("inclen", 1, 30))
	denoms := []string{"uusdt", ptypes.ATOM}
	d := denoms[g.Pick("incdenom", len(denoms))]
	amt := sdkmath.NewInt(int64(g.Int("incamt", 1, 5_000_000)))
	poolID := p.PoolId
	if g.Int("incvault", 0, 3) == 0 {
		poolID = uint64(sstypes.PoolId) // the stablestake vault is a reward pool too – possibly with nobody in it yet
	}
	return &Op{Signer: u, Kind: "masterchef.add_external_incentive", Msg: &mctypes.MsgAddExternalIncentive{Sender: u.Addr.String(), RewardDenom: d,
		PoolId: poolID, FromBlock: from, ToBlock: to, AmountPerBlock: amt}}
}

func (g *G) claimedOf(addr, denom string) sdkmath.Int {
	for _, c := range g.S.Commitments {
		if c.Creator == addr {
			return c.Claimed.AmountOf(denom)
		}
	}
	return sdkmath.ZeroInt()
}

func genCommitClaimed(g *G) *Op {
	u := g.User()
	d := []string{ptypes.Eden, ptypes.EdenB}[g.Pick("cdenom", 2)]
	have := g.claimedOf(u.Addr.String(), d)
	amt := g.Amount("commit", have)
	if g.Int("commitall", 0, 2) == 0 && have.IsPositive() {
		amt = have
	}
	return &Op{Signer: u, Kind: "commitment.commit_claimed", Msg: &ctypes.MsgCommitClaimedRewards{Creator: u.Addr.String(), Amount: amt, Denom: d}}
}

func genUncommit(g *G) *Op {
	u := g.User()
	d := []string{ptypes.Eden, ptypes.EdenB}[g.Pick("udenom", 2)]
	if g.Int("uncommitodd", 0, 5) == 0 {
		odd := []string{sstypes.GetShareDenom()}
		for _, p := range g.S.Pools {
			odd = append(odd, ammtypes.GetPoolShareDenom(p.PoolId))
		}
		d = odd[g.Pick("uncommitodddenom", len(odd))]
	}
	have := g.S.CommittedOf(u.Addr.String(), d)
	amt := g.Amount("uncommit", have)
	if g.Int("uncommitall", 0, 2) == 0 && have.IsPositive() {
		amt = have
	}
	return &Op{Signer: u, Kind: "commitment.uncommit", Msg: &ctypes.MsgUncommitTokens{Creator: u.Addr.String(), Amount: amt, Denom: d}}
}

func genVest(g *G) *Op {
	u := g.User()
	have := g.claimedOf(u.Addr.String(), ptypes.Eden)
	amt := g.Amount("vest", have)
	if have.IsPositive() && g.Bool("vestfrac") {
		amt = maxInt(have.MulRaw(int64(g.Int("vestpct", 1, 100))).QuoRaw(100), sdkmath.OneInt())
	}
	return &Op{Signer: u, Kind: "commitment.vest", Msg: &ctypes.MsgVest{Creator: u.Addr.String(), Amount: amt, Denom: ptypes.Eden}}
}

func (g *G) vestingTotal(addr string) sdkmath.Int {
	t := sdkmath.ZeroInt()
	for _, c := range g.S.Commitments {
		if c.Creator == addr {
			for _, v := range c.VestingTokens {
				if v.Denom == ptypes.Elys {
					t = t.Add(v.TotalAmount.Sub(v.ClaimedAmount))
				}
			}
		}
	}
	return t
}

func genVestLiquid(g *G) *Op {
	u := g.User()
	amt := g.ModestAmount("vestliquid", sdkmath.NewInt(1_000_000_000))
	return &Op{Signer: u, Kind: "commitment.vest_liquid", Msg: &ctypes.MsgVestLiquid{Creator: u.Addr.String(), Amount: amt, Denom: "uusdt"}}
}

func genCancelVest(g *G) *Op {
	u := g.User()
	have := g.vestingTotal(u.Addr.String())
	amt := g.Amount("cancelvest", have)
	if have.IsPositive() && g.Bool("cvfrac") {
		amt = maxInt(have.MulRaw(int64(g.Int("cvpct", 1, 100))).QuoRaw(100), sdkmath.OneInt())
	}
	return &Op{Signer: u, Kind: "commitment.cancel_vest", Msg: &ctypes.MsgCancelVest{Creator: u.Addr.String(), Amount: amt, Denom: ptypes.Eden}}
}

func genClaimVesting(g *G) *Op {
	u := g.User()
	return &Op{Signer: u, Kind: "commitment.claim_vesting", Msg: &ctypes.MsgClaimVesting{Sender: u.Addr.String()}}
}

func genVestNow(g *G) *Op {
	u := g.User()
	have := g.claimedOf(u.Addr.String(), ptypes.Eden)
	amt := g.Amount("vestnow", have)
	return &Op{Signer: u, Kind: "commitment.vest_now", Msg: &ctypes.MsgVestNow{Creator: u.Addr.String(), Amount: amt, Denom: ptypes.Eden}}
}

// ---------------------------------------------------------------- staking through commitment / estaking

func genStake(g *G) *Op {
	u := g.User()
	asset := []string{ptypes.Elys, ptypes.Elys, ptypes.Eden, ptypes.EdenB}[g.Pick("stakeasset", 4)]
	var amt sdkmath.Int
	if asset == ptypes.Elys {
		amt = g.ModestAmount("stake", sdkmath.NewInt(5_000_000_000))
		if g.Int("stake/small", 0, 3) == 0 {
			amt = sdkmath.NewInt(int64(g.Int("stake/smallamt", 1, 1_500_000))) // around the stake the vote ante handler asks for
		}
	} else {
		amt = g.Amount("stake", g.claimedOf(u.Addr.String(), asset))
	}
	return &Op{Signer: u, Kind: "commitment.stake", Msg: &ctypes.MsgStake{Creator: u.Addr.String(), Amount: amt, Asset: asset, ValidatorAddress: g.W.ValAddr}}
}

func genUnstake(g *G) *Op {
	u := g.User()
	asset := []string{ptypes.Elys, ptypes.Eden, ptypes.EdenB}[g.Pick("unstakeasset", 3)]
	if g.Int("unstakeodd", 0, 5) == 0 {
		// whatever else the account has committed (pool shares, vault shares) or holds: "unstake" is for the three
		// staking assets only
		odd := []string{sstypes.GetShareDenom(), ptypes.BaseCurrency}
		for _, p := range g.S.Pools {
			odd = append(odd, ammtypes.GetPoolShareDenom(p.PoolId))
		}
		asset = odd[g.Pick("unstakeoddasset", len(odd))]
	}
	var amt sdkmath.Int
	if asset == ptypes.Elys {
		// sized by what the account really has delegated (partial unstakes in several blocks are the
		// interesting ones: each burns EdenB through the commitment hook and re-checkpoints the delegation)
		ref := sdkmath.NewInt(5_000_000_000)
		if val, err := sdk.ValAddressFromBech32(g.W.ValAddr); err == nil {
			if d, err := g.W.App.StakingKeeper.GetDelegation(g.W.ReadCtx(), u.Addr, val); err == nil && d.Shares.IsPositive() {
				ref = d.Shares.TruncateInt()
			}
		}
		if g.Bool("unstake/part") {
			amt = maxInt(ref.MulRaw(int64(g.Int("unstake/pct", 1, 60))).QuoRaw(100), sdkmath.OneInt())
		} else {
			amt = g.Amount("unstake", ref)
		}
	} else {
		amt = g.Amount("unstake", g.S.CommittedOf(u.Addr.String(), asset))
	}
	return &Op{Signer: u, Kind: "commitment.unstake", Msg: &ctypes.MsgUnstake{Creator: u.Addr.String(), Amount: amt, Asset: asset, ValidatorAddress: g.W.ValAddr}}
}

func genWithdrawAllRewards(g *G) *Op {
	u := g.User()
	if g.Bool("elysonly") {
		return &Op{Signer: u, Kind: "estaking.withdraw_elys_rewards", Msg: &estakingtypes.MsgWithdrawElysStakingRewards{DelegatorAddress: u.Addr.String()}}
	}
	return &Op{Signer: u, Kind: "estaking.withdraw_all_rewards", Msg: &estakingtypes.MsgWithdrawAllRewards{DelegatorAddress: u.Addr.String()}}
}

// ---------------------------------------------------------------- tradeshield

func genSpotOrderCreate(g *G) *Op {
	u := g.User()
	p := g.pool()
	if p == nil {
		return nil
	}
	other := ""
	for _, a := range p.PoolAssets {
		if a.Token.Denom != ptypes.BaseCurrency {
			other = a.Token.Denom
		}
	}
	if other == "" {
		return nil
	}
	price := g.priceOf(other)
	if !price.IsPositive() {
		price = g.poolSpotPrice(other) // an asset without a feed is priced by its pool
	}
	if !price.IsPositive() {
		price = sdkmath.LegacyOneDec()
	}
	// the market price of the pair is the ratio of the two assets' prices (the base currency is not always at 1.0)
	if q := g.priceOf(ptypes.BaseCurrency); q.IsPositive() && g.priceOf(other).IsPositive() {
		price = price.Quo(q)
	}
	ot := []tstypes.SpotOrderType{tstypes.SpotOrderType_STOPLOSS, tstypes.SpotOrderType_LIMITSELL, tstypes.SpotOrderType_LIMITBUY, tstypes.SpotOrderType_MARKETBUY}[g.Pick("sot", 4)]
	rate := price.MulInt64(int64(g.Int("ratepct", 50, 150))).QuoInt64(100)
	switch g.Int("near", 0, 4) {
	case 4:
		// at the market to the last digit: the market itself and one or two units of the 18th decimal either side
		rate = price.Add(sdkmath.LegacyNewDecWithPrec(int64(g.Int("rateulp", -2, 2)), 18))
	case 0:
		rate = price.MulInt64(int64(g.Int("ratenear", 99, 101))).QuoInt64(100)
	case 1:
		// a hair's breadth from the market: 1e-3 .. 1e-8 below or above it
		eps := sdkmath.LegacyNewDecWithPrec(1, int64(g.Int("ratehair", 3, 8)))
		if g.Bool("ratehairup") {
			rate = price.Mul(sdkmath.LegacyOneDec().Add(eps))
		} else {
			rate = price.Mul(sdkmath.LegacyOneDec().Sub(eps))
		}
	}
	var amount sdk.Coin
	var target string
	switch ot {
	case tstypes.SpotOrderType_LIMITBUY, tstypes.SpotOrderType_MARKETBUY:
		amount = sdk.NewCoin(ptypes.BaseCurrency, g.ModestAmount("soamt", sdkmath.NewInt(10_000_000_000)))
		target = other
	default:
		amount = sdk.NewCoin(other, g.ModestAmount("soamt", sdkmath.NewInt(2_000_000_000)))
		target = ptypes.BaseCurrency
	}
	return &Op{Signer: u, Kind: "tradeshield.create_spot", Msg: &tstypes.MsgCreateSpotOrder{OrderType: ot,
		OrderPrice: tstypes.OrderPrice{BaseDenom: other, QuoteDenom: ptypes.BaseCurrency, Rate: rate}, OrderAmount: amount, OwnerAddress: u.Addr.String(), OrderTargetDenom: target}}
}

// poolSpotPrice: spot price (in base-currency units per unit) of a denom in the first constant-product pool that holds
// it against the base currency – the price the chain falls back to for an asset without an oracle feed.
func (g *G) poolSpotPrice(denom string) sdkmath.LegacyDec {
	for _, p := range g.S.Pools {
		if p.PoolParams.UseOracle {
			continue
		}
		var a, b *ammtypes.PoolAsset
		for i := range p.PoolAssets {
			switch p.PoolAssets[i].Token.Denom {
			case denom:
				a = &p.PoolAssets[i]
			case ptypes.BaseCurrency:
				b = &p.PoolAssets[i]
			}
		}
		if a != nil && b != nil && a.Token.Amount.IsPositive() && b.Token.Amount.IsPositive() && a.Weight.IsPositive() && b.Weight.IsPositive() {
			return b.Token.Amount.ToLegacyDec().Quo(b.Weight.ToLegacyDec()).Quo(a.Token.Amount.ToLegacyDec().Quo(a.Weight.ToLegacyDec()))
		}
	}
	return sdkmath.LegacyZeroDec()
}

func (g *G) spotOrder() *tstypes.SpotOrder {
	if len(g.S.SpotOrders) == 0 {
		return nil
	}
	return &g.S.SpotOrders[g.Pick("so", len(g.S.SpotOrders))]
}

func (g *G) orderSigner(owner string) *Account {
	if a := g.W.ByAddr[owner]; a != nil && !g.Busy[owner] && g.Int("foreign", 0, 5) > 0 {
		return a
	}
	return g.User()
}

func genSpotOrderUpdate(g *G) *Op {
	o := g.spotOrder()
	if o == nil {
		return nil
	}
	s := g.orderSigner(o.OwnerAddress)
	np := o.OrderPrice
	np.Rate = np.Rate.MulInt64(int64(g.Int("uprate", 50, 150))).QuoInt64(100)
	return &Op{Signer: s, Kind: "tradeshield.update_spot", Msg: &tstypes.MsgUpdateSpotOrder{OwnerAddress: s.Addr.String(), OrderId: o.OrderId, OrderPrice: np}}
}

func genSpotOrderCancel(g *G) *Op {
	o := g.spotOrder()
	if o == nil {
		return nil
	}
	s := g.orderSigner(o.OwnerAddress)
	if g.Bool("multi") {
		return &Op{Signer: s, Kind: "tradeshield.cancel_spots", Msg: &tstypes.MsgCancelSpotOrders{Creator: s.Addr.String(), SpotOrderIds: []uint64{o.OrderId}}}
	}
	return &Op{Signer: s, Kind: "tradeshield.cancel_spot", Msg: &tstypes.MsgCancelSpotOrder{OwnerAddress: s.Addr.String(), OrderId: o.OrderId}}
}

// trigDenom: the denom written INTO the trigger price is free-form input next to the order's trading asset; one
// time in four it names another priced denom (the trigger is still about the order's own trading asset).
func (g *G) trigDenom(asset string) string {
	if g.Int("trigdenom", 0, 3) == 0 {
		ds := g.W.Scenario.Denoms
		return ds[g.Pick("trigdenom/which", len(ds))]
	}
	return asset
}

func genPerpOrderCreate(g *G) *Op {
	if len(g.S.PerpPools) == 0 {
		return nil
	}
	op := genPerpOpen(g)
	if op == nil {
		return nil
	}
	m := op.Msg.(*perptypes.MsgOpen)
	price := g.priceOf(m.TradingAsset)
	if !price.IsPositive() {
		price = sdkmath.LegacyOneDec()
	}
	rate := price.MulInt64(int64(g.Int("trig", 80, 120))).QuoInt64(100)
	pos := tstypes.PerpetualPosition_LONG
	if m.Position == perptypes.Position_SHORT {
		pos = tstypes.PerpetualPosition_SHORT
	}
	lev := m.Leverage
	if lev.IsZero() {
		lev = sdkmath.LegacyNewDec(2)
	}
	return &Op{Signer: op.Signer, Kind: "tradeshield.create_perp_open", Msg: &tstypes.MsgCreatePerpetualOpenOrder{OwnerAddress: m.Creator,
		TriggerPrice: tstypes.TriggerPrice{TradingAssetDenom: g.trigDenom(m.TradingAsset), Rate: rate}, Collateral: m.Collateral, TradingAsset: m.TradingAsset,
		Position: pos, Leverage: lev, TakeProfitPrice: m.TakeProfitPrice, StopLossPrice: m.StopLossPrice, PoolId: m.PoolId}}
}

func genPerpCloseOrderCreate(g *G) *Op {
	m, owner := g.mtp()
	if m == nil {
		return nil
	}
	price := g.priceOf(m.TradingAsset)
	if !price.IsPositive() {
		price = sdkmath.LegacyOneDec()
	}
	rate := price.MulInt64(int64(g.Int("trig", 80, 120))).QuoInt64(100)
	return &Op{Signer: owner, Kind: "tradeshield.create_perp_close", Msg: &tstypes.MsgCreatePerpetualCloseOrder{OwnerAddress: owner.Addr.String(),
		TriggerPrice: tstypes.TriggerPrice{TradingAssetDenom: g.trigDenom(m.TradingAsset), Rate: rate}, PositionId: m.Id}}
}

func (g *G) perpOrder() *tstypes.PerpetualOrder {
	if len(g.S.PerpOrders) == 0 {
		return nil
	}
	return &g.S.PerpOrders[g.Pick("po", len(g.S.PerpOrders))]
}

func genPerpOrderUpdate(g *G) *Op {
	o := g.perpOrder()
	if o == nil {
		return nil
	}
	s := g.orderSigner(o.OwnerAddress)
	np := o.TriggerPrice
	np.Rate = np.Rate.MulInt64(int64(g.Int("uprate", 50, 150))).QuoInt64(100)
	np.TradingAssetDenom = g.trigDenom(np.TradingAssetDenom)
	return &Op{Signer: s, Kind: "tradeshield.update_perp", Msg: &tstypes.MsgUpdatePerpetualOrder{OwnerAddress: s.Addr.String(), OrderId: o.OrderId, TriggerPrice: np}}
}

func genPerpOrderCancel(g *G) *Op {
	o := g.perpOrder()
	if o == nil {
		return nil
	}
	s := g.orderSigner(o.OwnerAddress)
	if g.Bool("multi") {
		return &Op{Signer: s, Kind: "tradeshield.cancel_perps", Msg: &tstypes.MsgCancelPerpetualOrders{OwnerAddress: s.Addr.String(), OrderIds: []uint64{o.OrderId}}}
	}
	return &Op{Signer: s, Kind: "tradeshield.cancel_perp", Msg: &tstypes.MsgCancelPerpetualOrder{OwnerAddress: s.Addr.String(), OrderId: o.OrderId}}
}

func genExecuteOrders(g *G) *Op {
	if len(g.S.SpotOrders)+len(g.S.PerpOrders) == 0 {
		return nil
	}
	msg := &tstypes.MsgExecuteOrders{Creator: g.W.Bot.Addr.String()}
	for _, o := range g.S.SpotOrders {
		if g.Int("incl", 0, 2) > 0 {
			msg.SpotOrderIds = append(msg.SpotOrderIds, o.OrderId)
		}
	}
	for _, o := range g.S.PerpOrders {
		if g.Int("incl", 0, 2) > 0 {
			msg.PerpetualOrderIds = append(msg.PerpetualOrderIds, o.OrderId)
		}
	}
	if g.Int("bogus", 0, 9) == 0 {
		msg.SpotOrderIds = append(msg.SpotOrderIds, uint64(g.Int("bogusid", 100, 200)))
	}
	if len(msg.SpotOrderIds)+len(msg.PerpetualOrderIds) == 0 {
		return nil
	}
	sort.Slice(msg.SpotOrderIds, func(i, j int) bool { return msg.SpotOrderIds[i] < msg.SpotOrderIds[j] })
	// the same order named more than once in one request
	if g.Int("execdup", 0, 4) == 0 {
		if len(msg.SpotOrderIds) > 0 {
			msg.SpotOrderIds = append(msg.SpotOrderIds, msg.SpotOrderIds[0])
		}
		if len(msg.PerpetualOrderIds) > 0 {
			msg.PerpetualOrderIds = append(msg.PerpetualOrderIds, msg.PerpetualOrderIds[0])
		}
	}
	return &Op{Signer: g.W.Bot, Kind: "tradeshield.execute", Msg: msg}
}

// AllOps is the complete grammar; profiles select weights by name.
var AllOps = map[string]func(*G) *Op{
	"amm.swap_in": genSwapIn, "amm.swap_out": genSwapOut, "amm.swap_in_2hop": genSwapIn2, "amm.swap_out_2hop": genSwapOut2,
	"amm.swap_by_denom": genSwapByDenom, "amm.join": genJoin, "amm.exit": genExit,
	"bank.send_to_pool": genSendToPool, "bank.send": genSendUser, "bank.send_to_burn": genSendToBurn, "amm.feed_external_liquidity": genFeedExternalLiquidity, "tier.set_portfolio": genSetPortfolio, "amm.create_pool": genCreatePool,
	"stablestake.bond": genBond, "stablestake.unbond": genUnbond,
	"leveragelp.open": genLPOpen, "leveragelp.close": genLPClose, "leveragelp.update_stop_loss": genLPUpdateStopLoss,
	"leveragelp.claim_rewards": genLPClaim, "leveragelp.close_positions": genLPClosePositions,
	"perpetual.open": genPerpOpen, "perpetual.close": genPerpClose, "perpetual.update_stop_loss": genPerpUpdateSL,
	"perpetual.update_take_profit": genPerpUpdateTP, "perpetual.close_positions": genPerpClosePositions,
	"oracle.feed_price": genPriceMove, "oracle.refresh": genRefreshPrices, "oracle.feed_nonfeeder": genFeedByNonFeeder,
	"gov.submit": genGovSubmit, "gov.vote": genGovVote, "gov.deposit": genGovDeposit, "gov.vote_delegator": genGovVoteDelegator,
	"masterchef.claim": genMCClaim, "masterchef.add_external_incentive": genAddExternalIncentive,
	"commitment.commit_claimed": genCommitClaimed, "commitment.uncommit": genUncommit, "commitment.vest": genVest,
	"commitment.cancel_vest": genCancelVest, "commitment.claim_vesting": genClaimVesting, "commitment.vest_now": genVestNow,
	"commitment.vest_liquid": genVestLiquid, "commitment.stake": genStake, "commitment.unstake": genUnstake, "estaking.withdraw_rewards": genWithdrawAllRewards,
	"tradeshield.create_spot": genSpotOrderCreate, "tradeshield.update_spot": genSpotOrderUpdate, "tradeshield.cancel_spot": genSpotOrderCancel,
	"tradeshield.create_perp_open": genPerpOrderCreate, "tradeshield.create_perp_close": genPerpCloseOrderCreate,
	"tradeshield.update_perp": genPerpOrderUpdate, "tradeshield.cancel_perp": genPerpOrderCancel, "tradeshield.execute": genExecuteOrders,
}
