package harness

import (
	"fmt"
	"strings"

	sdkmath "cosmossdk.io/math"
	sdk "github.com/cosmos/cosmos-sdk/types"
	authtypes "github.com/cosmos/cosmos-sdk/x/auth/types"

	ammtypes "github.com/elys-network/elys/x/amm/types"
	ctypes "github.com/elys-network/elys/x/commitment/types"
	sstypes "github.com/elys-network/elys/x/stablestake/types"
)

func modAddr(name string) string { return authtypes.NewModuleAddress(name).String() }

// ---------------------------------------------------------------- C01

// CheckC01: pool book == bank (up to harness-known donations, bank side only larger);
// DenomLiquidity == Σ reserves.
func CheckC01(h *History, blk *BlockRecord) []Violation {
	s := h.Cur
	var out []Violation
	sum := map[string]sdkmath.Int{}
	for _, p := range s.Pools {
		for _, a := range p.PoolAssets {
			d := a.Token.Denom
			book := a.Token.Amount
			bank := s.BalOf(p.Address, d)
			don := h.Donations[p.Address].AmountOf(d)
			if book.IsNegative() {
				out = append(out, Violation{Sig: "C01/reserve-negative", Detail: fmt.Sprintf("pool %d %s book=%s", p.PoolId, d, book)})
			}
			if bank.LT(book) {
				out = append(out, Violation{Sig: "C01/bank<book", Detail: fmt.Sprintf("pool %d %s bank=%s book=%s drift=%s (height %d; %s)", p.PoolId, d, bank, book, bank.Sub(book), s.Height, blockSummary(blk))})
			} else if bank.Sub(book).GT(don) {
				out = append(out, Violation{Sig: "C01/bank>book", Detail: fmt.Sprintf("pool %d %s bank=%s book=%s drift=+%s known-donations=%s (height %d; %s)", p.PoolId, d, bank, book, bank.Sub(book), don, s.Height, blockSummary(blk))})
			}
			if cur, ok := sum[d]; ok {
				sum[d] = cur.Add(book)
			} else {
				sum[d] = book
			}
		}
	}
	for _, d := range sortedKeys(sum) {
		liq, ok := s.DenomLiq[d]
		if !ok {
			liq = sdkmath.ZeroInt()
		}
		if !liq.Equal(sum[d]) {
			out = append(out, Violation{Sig: "C01/denom-liquidity", Detail: fmt.Sprintf("denom %s liquidity=%s sum-of-reserves=%s (height %d; %s)", d, liq, sum[d], s.Height, blockSummary(blk))})
		}
	}
	for _, d := range sortedKeys(s.DenomLiq) {
		if _, ok := sum[d]; !ok && !s.DenomLiq[d].IsZero() {
			out = append(out, Violation{Sig: "C01/denom-liquidity", Detail: fmt.Sprintf("denom %s liquidity=%s but no pool holds it", d, s.DenomLiq[d])})
		}
	}
	return out
}

func blockSummary(blk *BlockRecord) string {
	if blk == nil {
		return ""
	}
	var parts []string
	for _, tx := range blk.Txs {
		t := tx.MsgType[strings.LastIndex(tx.MsgType, ".")+1:]
		parts = append(parts, fmt.Sprintf("%s:%d", t, tx.Code))
	}
	return "txs=" + strings.Join(parts, ",")
}

// ---------------------------------------------------------------- C02

func CheckC02(h *History, blk *BlockRecord) []Violation {
	s := h.Cur
	var out []Violation
	cmod := modAddr(ctypes.ModuleName)
	for _, p := range s.Pools {
		d := ammtypes.GetPoolShareDenom(p.PoolId)
		total := p.TotalShares.Amount
		supply := s.Supply.AmountOf(d)
		committed := sdkmath.ZeroInt()
		for _, c := range s.Commitments {
			for _, ct := range c.CommittedTokens {
				if ct.Denom == d {
					committed = committed.Add(ct.Amount)
				}
			}
		}
		custody := s.BalOf(cmod, d)
		if !total.Equal(supply) {
			out = append(out, Violation{Sig: "C02/total-shares!=supply", Detail: fmt.Sprintf("pool %d TotalShares=%s supply=%s (height %d; %s)", p.PoolId, total, supply, s.Height, blockSummary(blk))})
		}
		if !committed.Equal(supply) {
			out = append(out, Violation{Sig: "C02/committed!=supply", Detail: fmt.Sprintf("pool %d Σcommitted=%s supply=%s (height %d; %s)", p.PoolId, committed, supply, s.Height, blockSummary(blk))})
		}
		if !custody.Equal(supply) {
			out = append(out, Violation{Sig: "C02/custody!=supply", Detail: fmt.Sprintf("pool %d custody=%s supply=%s (height %d; %s)", p.PoolId, custody, supply, s.Height, blockSummary(blk))})
		}
		// supply may change only in blocks with a join/exit-type success on this pool
		if h.Prev != nil {
			prev := h.Prev.Supply.AmountOf(d)
			if !prev.Equal(supply) {
				up, down := shareMovers(h, blk, p.PoolId)
				if supply.GT(prev) && !up {
					out = append(out, Violation{Sig: "C02/supply-up-without-join", Detail: fmt.Sprintf("pool %d supply %s -> %s (height %d; %s)", p.PoolId, prev, supply, s.Height, blockSummary(blk))})
				}
				if supply.LT(prev) && !down {
					out = append(out, Violation{Sig: "C02/supply-down-without-exit", Detail: fmt.Sprintf("pool %d supply %s -> %s (height %d; %s)", p.PoolId, prev, supply, s.Height, blockSummary(blk))})
				}
			}
		}
	}
	return out
}

// shareMovers: does the block contain anything that may legitimately mint / burn
// shares of this pool? (model side of C02's "created only by joining, destroyed only
// by exiting"). Forced closes by the begin-block sweep count as exits when a
// leveragelp position on the pool existed before the block.
func shareMovers(h *History, blk *BlockRecord, poolID uint64) (up, down bool) {
	for _, tx := range blk.Txs {
		if tx.Code != 0 {
			continue
		}
		t := tx.MsgType
		switch {
		case strings.HasSuffix(t, "amm.MsgJoinPool"), strings.HasSuffix(t, "leveragelp.MsgOpen"):
			up = true
		case strings.HasSuffix(t, "amm.MsgExitPool"), strings.HasSuffix(t, "leveragelp.MsgClose"), strings.HasSuffix(t, "leveragelp.MsgClosePositions"):
			down = true
		}
	}
	if h.Prev != nil {
		for _, pos := range h.Prev.LPPositions {
			if pos.AmmPoolId == poolID {
				down = true // begin-block sweep may liquidate
			}
		}
		// the pool did not exist before this block: its creation is the first deposit (the creator's initial liquidity)
		if h.Prev.Pool(poolID) == nil {
			for _, tx := range blk.Txs {
				if tx.Code == 0 && strings.HasSuffix(tx.MsgType, "amm.MsgCreatePool") {
					up = true
				}
			}
		}
	}
	return
}

// ---------------------------------------------------------------- C06

func CheckC06(h *History, blk *BlockRecord) []Violation {
	s := h.Cur
	var out []Violation
	denom := s.SSParams.DepositDenom
	if denom == "" {
		return nil
	}
	cash := s.BalOf(modAddr(sstypes.ModuleName), denom)
	loans := sdkmath.ZeroInt()
	for _, d := range s.Debts {
		outst := d.Borrowed.Add(d.InterestStacked).Sub(d.InterestPaid)
		if d.Borrowed.IsNegative() || outst.IsNegative() {
			out = append(out, Violation{Sig: "C06/debt-negative", Detail: fmt.Sprintf("debt %s borrowed=%s stacked=%s paid=%s", d.Address, d.Borrowed, d.InterestStacked, d.InterestPaid)})
		}
		loans = loans.Add(outst)
	}
	tv := s.SSParams.TotalValue
	if tv.IsNegative() {
		out = append(out, Violation{Sig: "C06/total-value-negative", Detail: tv.String()})
	}
	if !tv.Equal(cash.Add(loans)) {
		diff := tv.Sub(cash.Add(loans))
		sign := "TV>cash+loans"
		if diff.IsNegative() {
			sign = "TV<cash+loans"
		}
		out = append(out, Violation{Sig: "C06/" + sign, Detail: fmt.Sprintf("TotalValue=%s cash=%s loans=%s diff=%s (height %d; %s)", tv, cash, loans, diff, s.Height, blockSummary(blk))})
	}
	return out
}

// ---------------------------------------------------------------- C18

// CheckC18: block processing failures are reported by the engine itself
// (BlockFailureIsViolation). Here: a transaction that failed (non-zero code, incl.
// recovered panics) must have been rolled back — the books that every handler touches
// (pool reserves vs bank, share supply vs committed, vault equation) still balance
// after a block that contained failed txs.
func CheckC18(h *History, blk *BlockRecord) []Violation {
	missing := false
	for _, d := range h.W.Scenario.Denoms {
		found := false
		for _, p := range h.Cur.Prices {
			if p.Asset == displayOf(d) {
				found = true
			}
		}
		if !found {
			missing = true
		}
	}
	if missing {
		h.Labels["block-with-missing-price"]++
	}
	failed, panicked := 0, 0
	for _, tx := range blk.Txs {
		if tx.Code != 0 {
			failed++
			if strings.Contains(tx.Log, "recovered") || strings.Contains(tx.Log, "panic") {
				panicked++
			}
		}
	}
	if failed == 0 {
		return nil
	}
	h.Labels["blocks-with-failed-tx"]++
	h.Labels["txs-panicked"] += panicked
	var out []Violation
	for _, v := range append(append(CheckC01(h, blk), CheckC02(h, blk)...), CheckC06(h, blk)...) {
		out = append(out, Violation{Sig: "C18/failed-tx-not-rolled-back/" + v.Sig, Detail: v.Detail})
	}
	return out
}

// ---------------------------------------------------------------- C07 (chain-level cross-check)

// CheckC07Chain: across every committed block the redemption value of a vault share does not
// fall by more than the rounding allowance (one share's worth per bond/unbond tx of the block),
// and outstanding loans never exceed 90% of the vault value right after a block in which a
// loan was granted (interest accrued later may push utilisation above the cap; granting may not).
func CheckC07Chain(h *History, blk *BlockRecord) []Violation {
	if v := c07ChainRoundTrips(h, blk); len(v) > 0 {
		return v
	}
	if h.Prev == nil {
		return nil
	}
	var out []Violation
	sd := sstypes.GetShareDenom()
	supPrev, supCur := h.Prev.Supply.AmountOf(sd), h.Cur.Supply.AmountOf(sd)
	if supPrev.IsPositive() && supCur.IsPositive() {
		rPrev := h.Prev.SSParams.TotalValue.ToLegacyDec().Quo(supPrev.ToLegacyDec())
		rCur := h.Cur.SSParams.TotalValue.ToLegacyDec().Quo(supCur.ToLegacyDec())
		n := int64(0)
		for _, tx := range blk.Txs {
			if tx.Code == 0 && (strings.HasSuffix(tx.MsgType, "stablestake.MsgBond") || strings.HasSuffix(tx.MsgType, "stablestake.MsgUnbond")) {
				n++
			}
		}
		// if the unbonds of this block could have redeemed every share that existed before, the vault may
		// have passed through zero shares; the next bond then starts a new share series at rate 1 and no
		// earlier lender is left whose shares could have lost value
		unbonded := sdkmath.ZeroInt()
		for _, tx := range blk.Txs {
			if m, ok := tx.Msg.(*sstypes.MsgUnbond); ok && tx.Code == 0 {
				unbonded = unbonded.Add(m.Amount)
			}
		}
		if unbonded.GTE(supPrev) {
			h.Labels["c07-vault-emptied-in-block"]++
		} else if rCur.LT(rPrev) {
			allow := rPrev.Ceil().TruncateInt().AddRaw(1).MulRaw(n)
			// the supply may have been as low as supPrev - (everything unbonded in this block) in between:
			// one share's worth of rounding is a larger fraction of the rate there
			low := sdkmath.MinInt(sdkmath.MinInt(supPrev, supCur), supPrev.Sub(unbonded))
			maxDrop := allow.ToLegacyDec().Quo(low.ToLegacyDec())
			if rPrev.Sub(rCur).GT(maxDrop) {
				out = append(out, Violation{Sig: "C07/share-value-fell", Detail: fmt.Sprintf("vault share value fell %s -> %s in one block (%d bond/unbond txs; allowed drop %s) (height %d; %s)", rPrev, rCur, n, maxDrop, h.Cur.Height, blockSummary(blk))})
			}
		}
		if fracLen := len(strings.TrimRight(rCur.String(), "0")); fracLen > 8 {
			h.Labels["c07-fractional-rate"]++
		}
	}
	// cap: in a block with a successful leveragelp open (the only caller of Borrow), loans <= 0.9 TV + interest accrued in this block
	opened := false
	for _, tx := range blk.Txs {
		if tx.Code == 0 && strings.HasSuffix(tx.MsgType, "leveragelp.MsgOpen") {
			opened = true
		}
	}
	if opened {
		tv := h.Cur.SSParams.TotalValue
		cash := h.Cur.BalOf(modAddr(sstypes.ModuleName), h.Cur.SSParams.DepositDenom)
		loans := tv.Sub(cash)
		// interest that materialised inside this block is not "pushed by the borrow": allow it
		interest := sdkmath.ZeroInt()
		prevStacked := map[string]sdkmath.Int{}
		for _, d := range h.Prev.Debts {
			prevStacked[d.Address] = d.InterestStacked
		}
		for _, d := range h.Cur.Debts {
			if p, ok := prevStacked[d.Address]; ok {
				interest = interest.Add(d.InterestStacked.Sub(p))
			} else {
				interest = interest.Add(d.InterestStacked)
			}
		}
		if loans.Sub(interest).MulRaw(10).GT(tv.MulRaw(9)) {
			// unbonds later in the same block also raise utilisation; only flag when no unbond happened
			unbonded := false
			for _, tx := range blk.Txs {
				if tx.Code == 0 && (strings.HasSuffix(tx.MsgType, "stablestake.MsgUnbond") || strings.HasSuffix(tx.MsgType, "leveragelp.MsgClose") || strings.HasSuffix(tx.MsgType, "leveragelp.MsgClosePositions")) {
					unbonded = true
				}
			}
			if !unbonded {
				out = append(out, Violation{Sig: "C07/cap-exceeded-by-borrow", Detail: fmt.Sprintf("after a block with a granted loan: loans %s (interest accrued in block %s) > 90%% of vault value %s (height %d; %s)", loans, interest, tv, h.Cur.Height, blockSummary(blk))})
			}
		}
		if tv.IsPositive() && loans.MulRaw(10).GTE(tv.MulRaw(8)) {
			h.Labels["c07-open-at-utilisation>=80%"]++
		}
	}
	return out
}

// c07ChainRoundTrips: an account whose only transaction of the block is the scenario's atomic [bond x, unbond the
// shares x buys] must not end the block with more of the deposit denom than it started with (fees added back),
// beyond one share's worth plus a unit of rounding.
func c07ChainRoundTrips(h *History, blk *BlockRecord) []Violation {
	if h.Prev == nil {
		return nil
	}
	var out []Violation
	denom := h.Cur.SSParams.DepositDenom
	for i := 0; i+1 < len(blk.Txs); i++ {
		b, ok1 := blk.Txs[i].Msg.(*sstypes.MsgBond)
		u, ok2 := blk.Txs[i+1].Msg.(*sstypes.MsgUnbond)
		if !ok1 || !ok2 || !blk.Txs[i+1].JoinPrev || blk.Txs[i].JoinPrev || blk.Txs[i].Code != 0 || b.Creator != u.Creator {
			continue
		}
		n := 0
		for _, tx := range blk.Txs {
			if tx.Signer == blk.Txs[i].Signer {
				n++
			}
		}
		if n != 2 {
			continue
		}
		// nothing else may have paid this account in the block (rewards paid out by a forced close of its position,
		// incoming transfers)
		in := TransfersTo(blk, b.Creator).AmountOf(denom)
		outp := TransfersFrom(blk, b.Creator).AmountOf(denom)
		gain := in.Sub(outp)
		fee, _ := sdk.ParseCoinsNormalized(blk.Txs[i].Fee)
		gain = gain.Add(fee.AmountOf(denom))
		// what the vault itself paid and took: transfers between the account and the vault module
		vault := modAddr(sstypes.ModuleName)
		var fromVault, toVault sdkmath.Int = sdkmath.ZeroInt(), sdkmath.ZeroInt()
		for _, e := range allEvents(blk) {
			if e.Type != "transfer" {
				continue
			}
			c, err := sdk.ParseCoinsNormalized(attr(e, "amount"))
			if err != nil {
				continue
			}
			if attr(e, "sender") == vault && attr(e, "recipient") == b.Creator {
				fromVault = fromVault.Add(c.AmountOf(denom))
			}
			if attr(e, "sender") == b.Creator && attr(e, "recipient") == vault {
				toVault = toVault.Add(c.AmountOf(denom))
			}
		}
		rate := sdkmath.LegacyOneDec()
		if sup := h.Cur.Supply.AmountOf(sstypes.GetShareDenom()); sup.IsPositive() {
			rate = h.Cur.SSParams.TotalValue.ToLegacyDec().QuoInt(sup)
		}
		allow := rate.Ceil().TruncateInt().AddRaw(2)
		// the share amount was computed by the generator at the committed rate; the rate at execution can only be
		// higher (interest booked earlier in the block), so the deposit may have bought a few shares fewer than the
		// transaction withdraws – those extra shares are the account's own older ones and are paid at the rate
		// The number of shares the deposit really bought is read from the transaction's own mint event, not
		// recomputed from the end-of-block rate: interest booked *after* the mint (inside the same transaction)
		// must not be mistaken for older shares.
		minted := b.Amount.ToLegacyDec().Quo(rate).TruncateInt()
		if ev := sdkmath.ZeroInt(); true {
			for _, e := range blk.Txs[i].Events {
				if e.Type == "coinbase" {
					if c, err := sdk.ParseCoinsNormalized(attr(e, "amount")); err == nil {
						ev = ev.Add(c.AmountOf(sstypes.GetShareDenom()))
					}
				}
			}
			if ev.IsPositive() {
				minted = ev
				h.Labels["c07-chain-roundtrips-mint-event"]++
			}
		}
		if u.Amount.GT(minted) {
			allow = allow.Add(rate.MulInt(u.Amount.Sub(minted)).Ceil().TruncateInt()).AddRaw(1)
		}
		h.Labels["c07-chain-roundtrips-judged"]++
		if fromVault.GT(toVault.Add(allow)) {
			out = append(out, Violation{Sig: "C07/round-trip-gained", Detail: fmt.Sprintf("%s deposited %s and, in the same transaction, withdrew the %s shares that deposit buys: the vault took %s and paid back %s (allowance one share's worth %s) (height %d; %s)",
				blk.Txs[i].Signer, b.Amount, u.Amount, toVault, fromVault, allow, h.Cur.Height, blockSummary(blk))})
		}
		_ = gain
	}
	return out
}
