package harness

import (
	"bytes"
	"crypto/sha256"
	"encoding/hex"
	"encoding/json"
	"errors"
	"fmt"
	"os"
	"reflect"
	"sort"
	"strings"
	"sync"
	"testing"
	"time"

	sdkmath "cosmossdk.io/math"
	sdk "github.com/cosmos/cosmos-sdk/types"
	govtypes "github.com/cosmos/cosmos-sdk/x/gov/types"
	gogoproto "github.com/cosmos/gogoproto/proto"
	"pgregory.net/rapid"

	ammtypes "github.com/elys-network/elys/x/amm/types"
	aptypes2 "github.com/elys-network/elys/x/assetprofile/types"
	lptypes "github.com/elys-network/elys/x/leveragelp/types"
	oracletypes2 "github.com/elys-network/elys/x/oracle/types"
	ptypes "github.com/elys-network/elys/x/parameter/types"
	perptypes "github.com/elys-network/elys/x/perpetual/types"
	sstypes "github.com/elys-network/elys/x/stablestake/types"
	tokenomicstypes "github.com/elys-network/elys/x/tokenomics/types"
	tstypes "github.com/elys-network/elys/x/tradeshield/types"
)

// C17 (E3): governance-only messages are enumerated from the running app's interface
// registry / message router; their payload is filled by reflection; the authority is set to
// anything but the governance address; the handler must reject and leave every store
// byte-for-byte unchanged. Owner-scoped messages are sent by an attacker naming a victim's
// existing order / position.

// stateHash: sha256 over every KV pair of every mounted KV store, in store-name and key order.
func stateHash(w *World, ctx sdk.Context) string {
	keys := w.App.GetKVStoreKey()
	h := sha256.New()
	for _, name := range sortedKeys(keys) {
		st := ctx.MultiStore().GetKVStore(keys[name])
		it := st.Iterator(nil, nil)
		for ; it.Valid(); it.Next() {
			h.Write([]byte(name))
			h.Write(it.Key())
			h.Write([]byte{0})
			h.Write(it.Value())
		}
		it.Close()
	}
	return hex.EncodeToString(h.Sum(nil))
}

type govType struct {
	URL       string
	AuthField string // Authority, or Creator for x/parameter
	Proto     gogoproto.Message
}

// enumerateGovTypes lists every /elys.* message type registered in the interface registry
// that has a handler in the router and carries the governance authority.
func enumerateGovTypes(w *World) (gov []govType, permissionless []string, all int) {
	reg := w.App.InterfaceRegistry()
	urls := reg.ListImplementations(sdk.MsgInterfaceProtoName)
	sort.Strings(urls)
	for _, url := range urls {
		if !strings.HasPrefix(url, "/elys.") {
			continue
		}
		msg, err := reg.Resolve(url)
		if err != nil || w.App.MsgServiceRouter().HandlerByTypeURL(url) == nil {
			continue
		}
		all++
		rv := reflect.ValueOf(msg).Elem()
		if f := rv.FieldByName("Authority"); f.IsValid() && f.Kind() == reflect.String {
			gov = append(gov, govType{URL: url, AuthField: "Authority", Proto: msg})
			continue
		}
		if strings.HasPrefix(url, "/elys.parameter.") {
			if f := rv.FieldByName("Creator"); f.IsValid() {
				gov = append(gov, govType{URL: url, AuthField: "Creator", Proto: msg})
				continue
			}
		}
		if url == "/elys.oracle.MsgCreateAssetInfo" || url == "/elys.assetprofile.MsgAddEntry" {
			permissionless = append(permissionless, url)
		}
	}
	return
}

var (
	decType  = reflect.TypeOf(sdkmath.LegacyDec{})
	intType  = reflect.TypeOf(sdkmath.Int{})
	coinType = reflect.TypeOf(sdk.Coin{})
	timeType = reflect.TypeOf(time.Time{})
)

// fillValue fills v with generated, type-appropriate content.
func fillValue(rt *rapid.T, w *World, v reflect.Value, name string, depth int) {
	lname := strings.ToLower(name)
	switch v.Type() {
	case decType:
		if UniformDraw(rt, name+"/smalldec", 2) == 1 {
			// fees, portions and the like: most validations want a value in [0, 0.02] or [0, 1]
			v.Set(reflect.ValueOf(sdkmath.LegacyNewDecWithPrec(int64(UniformDraw(rt, name+"/dec4", 200)), 4)))
			return
		}
		v.Set(reflect.ValueOf(sdkmath.LegacyNewDecWithPrec(int64(UniformDraw(rt, name+"/dec", 2000)), 3)))
		return
	case intType:
		v.Set(reflect.ValueOf(sdkmath.NewInt(int64(UniformDraw(rt, name+"/int", 1000000)))))
		return
	case coinType:
		v.Set(reflect.ValueOf(sdk.NewInt64Coin(w.Scenario.Denoms[UniformDraw(rt, name+"/cd", len(w.Scenario.Denoms))], int64(1+UniformDraw(rt, name+"/ca", 1000000)))))
		return
	case timeType:
		v.Set(reflect.ValueOf(GenesisTime.Add(time.Duration(UniformDraw(rt, name+"/t", 100000)) * time.Second)))
		return
	}
	switch v.Kind() {
	case reflect.String:
		switch {
		case strings.Contains(lname, "address") || lname == "creator" || lname == "sender" || lname == "feeder" || strings.Contains(lname, "feeders") || strings.Contains(lname, "authority"):
			all := w.AllKeyed()
			v.SetString(all[UniformDraw(rt, name+"/addr", len(all))].Addr.String())
		case strings.Contains(lname, "denom"):
			ds := append([]string{}, w.Scenario.Denoms...)
			ds = append(ds, "ueden", "ibc/ABCDEF", "unew")
			v.SetString(ds[UniformDraw(rt, name+"/denom", len(ds))])
		case strings.Contains(lname, "identifier"):
			v.SetString([]string{"day", "week", "tenseconds"}[UniformDraw(rt, name+"/id", 3)])
		default:
			v.SetString([]string{"", "x", "verif", "ATOM", "channel-1"}[UniformDraw(rt, name+"/s", 5)])
		}
	case reflect.Bool:
		v.SetBool(UniformDraw(rt, name+"/b", 2) == 1)
	case reflect.Int32, reflect.Int64, reflect.Int:
		v.SetInt(int64(UniformDraw(rt, name+"/i", 1000)))
	case reflect.Uint32, reflect.Uint64, reflect.Uint:
		if (strings.Contains(lname, "poolid") || lname == "id") && UniformDraw(rt, name+"/existing", 3) > 0 {
			// an id that exists in the fixture (pools 1 and 2, positions and orders start at 1)
			v.SetUint(uint64(1 + UniformDraw(rt, name+"/id12", 2)))
			return
		}
		v.SetUint(uint64(UniformDraw(rt, name+"/u", 1000)))
	case reflect.Ptr:
		if depth > 4 {
			return
		}
		if v.Type().Elem().Kind() == reflect.Struct && UniformDraw(rt, name+"/nil", 8) != 0 {
			nv := reflect.New(v.Type().Elem())
			fillValue(rt, w, nv.Elem(), name, depth+1)
			v.Set(nv)
		}
	case reflect.Struct:
		for i := 0; i < v.NumField(); i++ {
			f := v.Type().Field(i)
			if f.PkgPath != "" || strings.HasPrefix(f.Name, "XXX_") {
				continue
			}
			fillValue(rt, w, v.Field(i), f.Name, depth+1)
		}
	case reflect.Slice:
		if v.Type().Elem().Kind() == reflect.Uint8 || depth > 4 {
			return
		}
		n := UniformDraw(rt, name+"/len", 3)
		s := reflect.MakeSlice(v.Type(), n, n)
		for i := 0; i < n; i++ {
			el := s.Index(i)
			if el.Kind() == reflect.Ptr && el.Type().Elem().Kind() == reflect.Struct {
				// a decoded repeated message field never holds nil elements
				nv := reflect.New(el.Type().Elem())
				fillValue(rt, w, nv.Elem(), name, depth+1)
				el.Set(nv)
				continue
			}
			fillValue(rt, w, el, name, depth+1)
		}
		v.Set(s)
	}
}

// currentParams: for payload validity, Params fields are seeded from the module's stored params.
func currentParams(w *World, ctx sdk.Context, url string) any {
	a := w.App
	switch {
	case strings.HasPrefix(url, "/elys.amm."):
		return a.AmmKeeper.GetParams(ctx)
	case strings.HasPrefix(url, "/elys.perpetual."):
		return a.PerpetualKeeper.GetParams(ctx)
	case strings.HasPrefix(url, "/elys.leveragelp."):
		return a.LeveragelpKeeper.GetParams(ctx)
	case strings.HasPrefix(url, "/elys.stablestake."):
		return a.StablestakeKeeper.GetParams(ctx)
	case strings.HasPrefix(url, "/elys.masterchef."):
		return a.MasterchefKeeper.GetParams(ctx)
	case strings.HasPrefix(url, "/elys.oracle."):
		return a.OracleKeeper.GetParams(ctx)
	case strings.HasPrefix(url, "/elys.tradeshield."):
		return a.TradeshieldKeeper.GetParams(ctx)
	case strings.HasPrefix(url, "/elys.burner."):
		return a.BurnerKeeper.GetParams(ctx)
	case strings.HasPrefix(url, "/elys.estaking."):
		return a.EstakingKeeper.GetParams(ctx)
	}
	return nil
}

func setParamsField(msg gogoproto.Message, params any) {
	if params == nil {
		return
	}
	f := reflect.ValueOf(msg).Elem().FieldByName("Params")
	if !f.IsValid() {
		return
	}
	pv := reflect.ValueOf(params)
	if f.Kind() == reflect.Ptr && f.Type().Elem() == pv.Type() {
		np := reflect.New(pv.Type())
		np.Elem().Set(pv)
		f.Set(np)
	} else if f.Type() == pv.Type() {
		f.Set(pv)
	}
}

var (
	c17Once  sync.Once
	c17World *World
	c17Err   error
	c17Ids   struct{ Spot, PerpOrder, MTP, LP, AttSpot, AttPerp uint64 }
)

// c17Fixture: a world in which the victim (user0) owns a pending spot order, a pending
// perpetual limit-open order, an open MTP and an open leveragelp position, all created by
// signed transactions in committed blocks.
func c17Fixture() (*World, error) {
	c17Once.Do(func() {
		w, err := BuildWorld(DefaultWorldSpec())
		if err != nil {
			c17Err = err
			return
		}
		v, lender, v2 := w.Accounts[0], w.Accounts[3], w.Accounts[4]
		w.Submit(lender, &sstypes.MsgBond{Creator: lender.Addr.String(), Amount: sdkmath.NewInt(500_000_000_000)})
		w.Submit(v, &perptypes.MsgOpen{Creator: v.Addr.String(), Position: perptypes.Position_LONG, Leverage: sdkmath.LegacyNewDec(3), TradingAsset: ptypes.ATOM,
			Collateral: sdk.NewInt64Coin(ptypes.BaseCurrency, 1_000_000_000), TakeProfitPrice: sdkmath.LegacyNewDec(15), StopLossPrice: sdkmath.LegacyZeroDec(), PoolId: 1})
		w.EndBlock(5 * time.Second)
		w.Submit(v, &lptypes.MsgOpen{Creator: v.Addr.String(), CollateralAsset: ptypes.BaseCurrency, CollateralAmount: sdkmath.NewInt(1_000_000_000), AmmPoolId: 1, Leverage: sdkmath.LegacyNewDec(3), StopLossPrice: sdkmath.LegacyZeroDec()})
		w.Submit(v2, &tstypes.MsgCreatePerpetualOpenOrder{OwnerAddress: v2.Addr.String(), TriggerPrice: tstypes.TriggerPrice{TradingAssetDenom: ptypes.ATOM, Rate: sdkmath.LegacyNewDec(3)},
			Collateral: sdk.NewInt64Coin(ptypes.BaseCurrency, 500_000_000), TradingAsset: ptypes.ATOM, Position: tstypes.PerpetualPosition_LONG, Leverage: sdkmath.LegacyNewDec(2),
			TakeProfitPrice: sdkmath.LegacyNewDec(12), StopLossPrice: sdkmath.LegacyZeroDec(), PoolId: 1})
		w.EndBlock(5 * time.Second)
		w.Submit(v, &tstypes.MsgCreateSpotOrder{OrderType: tstypes.SpotOrderType_LIMITBUY, OrderPrice: tstypes.OrderPrice{BaseDenom: ptypes.ATOM, QuoteDenom: ptypes.BaseCurrency, Rate: sdkmath.LegacyNewDec(2)},
			OrderAmount: sdk.NewInt64Coin(ptypes.BaseCurrency, 700_000_000), OwnerAddress: v.Addr.String(), OrderTargetDenom: ptypes.ATOM})
		// the first attacker (user1) owns pending orders of its own, so that batches can mix own and foreign ids
		att := w.Accounts[1]
		w.Submit(att, &tstypes.MsgCreateSpotOrder{OrderType: tstypes.SpotOrderType_LIMITBUY, OrderPrice: tstypes.OrderPrice{BaseDenom: ptypes.ATOM, QuoteDenom: ptypes.BaseCurrency, Rate: sdkmath.LegacyNewDec(1)},
			OrderAmount: sdk.NewInt64Coin(ptypes.BaseCurrency, 300_000_000), OwnerAddress: att.Addr.String(), OrderTargetDenom: ptypes.ATOM})
		blk := w.EndBlock(5 * time.Second)
		if w.BlockErr != nil {
			c17Err = w.BlockErr
			return
		}
		w.Submit(att, &tstypes.MsgCreatePerpetualOpenOrder{OwnerAddress: att.Addr.String(), TriggerPrice: tstypes.TriggerPrice{TradingAssetDenom: ptypes.ATOM, Rate: sdkmath.LegacyNewDec(3)},
			Collateral: sdk.NewInt64Coin(ptypes.BaseCurrency, 400_000_000), TradingAsset: ptypes.ATOM, Position: tstypes.PerpetualPosition_LONG, Leverage: sdkmath.LegacyNewDec(2),
			TakeProfitPrice: sdkmath.LegacyNewDec(12), StopLossPrice: sdkmath.LegacyZeroDec(), PoolId: 1})
		w.EndBlock(5 * time.Second)
		if w.BlockErr != nil {
			c17Err = w.BlockErr
			return
		}
		_ = blk
		s := w.Snapshot()
		if len(s.SpotOrders) == 0 || len(s.PerpOrders) == 0 || len(s.MTPs) == 0 || len(s.LPPositions) == 0 {
			var logs []string
			for _, b := range w.Blocks {
				for _, tx := range b.Txs {
					if tx.Code != 0 {
						logs = append(logs, tx.MsgType+": "+tx.Log)
					}
				}
			}
			c17Err = fmt.Errorf("victim state incomplete: spot=%d perporder=%d mtp=%d lp=%d; %v", len(s.SpotOrders), len(s.PerpOrders), len(s.MTPs), len(s.LPPositions), logs)
			return
		}
		c17Ids.MTP, c17Ids.LP = s.MTPs[0].Id, s.LPPositions[0].Id
		for _, o := range s.SpotOrders {
			if o.OwnerAddress == v.Addr.String() {
				c17Ids.Spot = o.OrderId
			}
			if o.OwnerAddress == att.Addr.String() {
				c17Ids.AttSpot = o.OrderId
			}
		}
		for _, o := range s.PerpOrders {
			if o.OwnerAddress == v2.Addr.String() {
				c17Ids.PerpOrder = o.OrderId
			}
			if o.OwnerAddress == att.Addr.String() {
				c17Ids.AttPerp = o.OrderId
			}
		}
		if c17Ids.Spot == 0 || c17Ids.AttSpot == 0 || c17Ids.PerpOrder == 0 || c17Ids.AttPerp == 0 {
			c17Err = fmt.Errorf("fixture orders incomplete: %+v", c17Ids)
			return
		}
		c17World = w
	})
	return c17World, c17Err
}

type c17Case struct {
	Property   string          `json:"property"`
	Kind       string          `json:"kind"`
	URL        string          `json:"type_url"`
	Msg        json.RawMessage `json:"msg"`
	What       string          `json:"violation,omitempty"`
	Plant      string          `json:"planted_record_authority,omitempty"` // the addressed record exists with this stored authority
	Privileged bool            `json:"sender_holds_lesser_privileges,omitempty"`
}

func TestC17(t *testing.T) {
	w, err := c17Fixture()
	if err != nil {
		t.Fatalf("harness: %v", err)
	}
	govs, permissionless, all := enumerateGovTypes(w)
	if len(govs) < 30 {
		t.Fatalf("harness: only %d governance message types enumerated", len(govs))
	}
	gov := GovAddr()
	sum := newSummary()
	defer sum.emit()
	sum.Labels["registered-elys-msg-types"] = all
	sum.Labels["gov-msg-types"] = len(govs)
	sum.Labels["permissionless-by-construction:"+strings.Join(permissionless, ",")] = 1

	if path := os.Getenv("VERIF_REPLAY"); path != "" {
		bz, err := os.ReadFile(path)
		if err != nil {
			t.Fatalf("harness: %v", err)
		}
		var c c17Case
		if err := json.Unmarshal(bz, &c); err != nil {
			t.Fatalf("harness: %v", err)
		}
		var msg sdk.Msg
		if err := w.App.AppCodec().UnmarshalInterfaceJSON(c.Msg, &msg); err != nil {
			t.Fatalf("harness: %v", err)
		}
		rctx := caseCtx(w)
		if c.Plant != "" {
			plantStoredAuthority(w, rctx, msg, c.Plant)
		}
		if c.Privileged {
			if signers, _, err := w.App.AppCodec().GetMsgV1Signers(msg); err == nil && len(signers) == 1 {
				grantLesserPrivileges(w, rctx, sdk.AccAddress(signers[0]))
			}
		}
		if what := mustReject(w, rctx, msg); what != "" {
			t.Fatalf("VIOLATION C17 (replay): %s", what)
		}
		return
	}

	curPlant, curPriv := "", false
	fail := func(rt *rapid.T, msg sdk.Msg, what string) {
		js, _ := w.App.AppCodec().MarshalInterfaceJSON(msg)
		if p := os.Getenv("VERIF_FAILTRACE"); p != "" {
			bz, _ := json.MarshalIndent(c17Case{Property: "C17", Kind: "c17-case", URL: sdk.MsgTypeURL(msg), Msg: js, What: what, Plant: curPlant, Privileged: curPriv}, "", " ")
			_ = os.WriteFile(p, bz, 0o644)
		}
		rt.Fatalf("VIOLATION C17: %s\nmessage: %s", what, js)
	}

	// control: every gov type with the real authority must not fail with the signer error
	ctrlCtx := caseCtx(w)
	for _, g := range govs {
		msg := gogoproto.Clone(g.Proto).(sdk.Msg)
		reflect.ValueOf(msg).Elem().FieldByName(g.AuthField).SetString(gov)
		setParamsField(msg, currentParams(w, ctrlCtx, g.URL))
		err, _ := execHandler(w, ctrlCtx, msg)
		if err != nil && errors.Is(err, govtypes.ErrInvalidSigner) {
			t.Fatalf("harness: control for %s failed with the signer error although the gov authority was used: %v", g.URL, err)
		}
	}

	rapid.Check(t, func(rt *rapid.T) {
		ctx := caseCtx(w)
		curPlant, curPriv = "", false
		if UniformDraw(rt, "class", 3) > 0 {
			// ---- governance class
			g := govs[UniformDraw(rt, "type", len(govs))]
			msg := gogoproto.Clone(g.Proto).(sdk.Msg)
			rv := reflect.ValueOf(msg).Elem()
			fillValue(rt, w, rv, "msg", 0)
			if UniformDraw(rt, "curparams", 3) > 0 {
				setParamsField(msg, currentParams(w, ctx, g.URL))
			}
			kinds := []string{"user", "module-account", "empty", "malformed", "gov-with-suffix", "other-module"}
			kind := kinds[UniformDraw(rt, "badkind", len(kinds))]
			var auth string
			switch kind {
			case "user":
				ak := w.AllKeyed()
				auth = ak[UniformDraw(rt, "who", len(ak))].Addr.String()
			case "module-account":
				auth = modAddr(strings.Split(strings.TrimPrefix(g.URL, "/elys."), ".")[0])
			case "other-module":
				auth = modAddr([]string{"amm", "commitment", "distribution", "fee_collector", "masterchef"}[UniformDraw(rt, "mod", 5)])
			case "empty":
				auth = ""
			case "malformed":
				auth = "cosmos1notanaddress"
			case "gov-with-suffix":
				auth = gov + "x"
			}
			rv.FieldByName(g.AuthField).SetString(auth)
			// some handlers compare the authority with one STORED in the record they change (asset profile
			// entries, airdrops, inflation schedules – genesis may hold such records with any authority, airdrops
			// by design name the claimant). Half of the time the state holds exactly the record the message
			// addresses, owned by the sender: the message must still be refused.
			if a, aerr := sdk.AccAddressFromBech32(auth); aerr == nil && len(a) > 0 && UniformDraw(rt, "plant", 2) == 1 {
				if plantStoredAuthority(w, ctx, msg, auth) {
					kind += "+owns-stored-record"
					curPlant = auth
				}
			}
			// lesser privileges are not the governance authority: half of the time the sender holds every non-governance
			// permission the modules know (allowed pool creator, whitelisted trader in leveragelp and perpetual, active
			// price feeder) – the message must still be refused
			if a, aerr := sdk.AccAddressFromBech32(auth); aerr == nil && len(a) > 0 && UniformDraw(rt, "privileged", 2) == 1 {
				grantLesserPrivileges(w, ctx, a)
				kind += "+holds-lesser-privileges"
				curPriv = true
			}
			validBasic := safeValidateBasic(msg)
			// the signer the ante handler would demand is exactly the authority field
			if signers, _, err := w.App.AppCodec().GetMsgV1Signers(msg); err == nil && len(signers) == 1 {
				if a, aerr := sdk.AccAddressFromBech32(auth); aerr == nil && !bytes.Equal(signers[0], a) {
					fail(rt, msg, fmt.Sprintf("%s: the required signer is not the %s field, so the signature does not bind the authority", g.URL, g.AuthField))
				}
			}
			if what := mustReject(w, ctx, msg); what != "" {
				fail(rt, msg, what)
			}
			sum.record(g.URL+"|"+kind, validBasic, []string{"gov/" + kind, fmt.Sprintf("gov/validate-basic-ok=%v", validBasic)}, map[string]any{"type": g.URL, "bad_authority": kind, "validate_basic_ok": validBasic})
			return
		}
		// ---- owner class: the attacker names the victim's order / position
		attackers := []*Account{w.Accounts[1], w.Accounts[2], w.Bot, w.Feeder, w.Admin}
		att := attackers[UniformDraw(rt, "attacker", len(attackers))].Addr.String()
		rate := sdkmath.LegacyNewDecWithPrec(int64(1+UniformDraw(rt, "rate", 20000)), 3)
		amt := sdkmath.NewInt(int64(1 + UniformDraw(rt, "amt", 2_000_000_000)))
		var msg sdk.Msg
		which := UniformDraw(rt, "owner-msg", 13)
		switch which {
		case 0:
			msg = &tstypes.MsgUpdateSpotOrder{OwnerAddress: att, OrderId: c17Ids.Spot, OrderPrice: tstypes.OrderPrice{BaseDenom: ptypes.ATOM, QuoteDenom: ptypes.BaseCurrency, Rate: rate}}
		case 1:
			msg = &tstypes.MsgCancelSpotOrder{OwnerAddress: att, OrderId: c17Ids.Spot}
		case 2:
			msg = &tstypes.MsgCancelSpotOrders{Creator: att, SpotOrderIds: mixedIds(rt, c17Ids.Spot, c17Ids.AttSpot)}
		case 3:
			msg = &tstypes.MsgUpdatePerpetualOrder{OwnerAddress: att, OrderId: c17Ids.PerpOrder, TriggerPrice: tstypes.TriggerPrice{TradingAssetDenom: ptypes.ATOM, Rate: rate}}
		case 4:
			msg = &tstypes.MsgCancelPerpetualOrder{OwnerAddress: att, OrderId: c17Ids.PerpOrder}
		case 5:
			msg = &tstypes.MsgCancelPerpetualOrders{OwnerAddress: att, OrderIds: mixedIds(rt, c17Ids.PerpOrder, c17Ids.AttPerp)}
		case 6:
			msg = &perptypes.MsgClose{Creator: att, Id: c17Ids.MTP, Amount: amt}
		case 7:
			msg = &perptypes.MsgUpdateStopLoss{Creator: att, Id: c17Ids.MTP, Price: rate}
		case 8:
			msg = &perptypes.MsgUpdateTakeProfitPrice{Creator: att, Id: c17Ids.MTP, Price: rate.MulInt64(3)}
		case 9:
			msg = &lptypes.MsgClose{Creator: att, Id: c17Ids.LP, LpAmount: amt.MulRaw(1_000_000_000)}
		case 10:
			msg = &lptypes.MsgUpdateStopLoss{Creator: att, Position: c17Ids.LP, Price: rate}
		case 11:
			msg = &lptypes.MsgClaimRewards{Sender: att, Ids: []uint64{c17Ids.LP}}
		default:
			// pool listings: creating a pool is reserved to the accounts governance put on the allow-list (by default
			// the governance account alone). The sender is on no list; half of the time governance has replaced the
			// amm parameters with a set that carries an EMPTY allow-list
			if w.App.AmmKeeper.GetParams(ctx).IsCreatorAllowed(att) {
				att = w.Accounts[1].Addr.String() // the fixture's admin IS on the list (it created the pools)
			}
			if UniformDraw(rt, "emptylist", 2) == 1 {
				ap := w.App.AmmKeeper.GetParams(ctx)
				ap.AllowedPoolCreators = nil
				w.App.AmmKeeper.SetParams(ctx, ap)
			}
			a1 := sdkmath.NewInt(int64(1_000_000 + UniformDraw(rt, "cp/a1", 1_000_000_000)))
			a2 := sdkmath.NewInt(int64(1_000_000 + UniformDraw(rt, "cp/a2", 1_000_000_000)))
			msg = &ammtypes.MsgCreatePool{Sender: att,
				PoolParams: ammtypes.PoolParams{UseOracle: UniformDraw(rt, "cp/oracle", 2) == 1, SwapFee: sdkmath.LegacyNewDecWithPrec(int64(UniformDraw(rt, "cp/fee", 200)), 4), FeeDenom: ptypes.BaseCurrency},
				PoolAssets: []ammtypes.PoolAsset{
					{Token: sdk.NewCoin(ptypes.ATOM, a1), Weight: sdkmath.NewInt(50), ExternalLiquidityRatio: sdkmath.LegacyOneDec()},
					{Token: sdk.NewCoin(ptypes.BaseCurrency, a2), Weight: sdkmath.NewInt(50), ExternalLiquidityRatio: sdkmath.LegacyOneDec()}}}
		}
		validBasic := safeValidateBasic(msg)
		if signers, _, err := w.App.AppCodec().GetMsgV1Signers(msg); err != nil || len(signers) != 1 || !bytes.Equal(signers[0], sdk.MustAccAddressFromBech32(att)) {
			fail(rt, msg, fmt.Sprintf("%s: the required signer is not the owner field", sdk.MsgTypeURL(msg)))
		}
		if what := mustReject(w, ctx, msg); what != "" {
			fail(rt, msg, what)
		}
		sum.record(fmt.Sprintf("%s|%s", sdk.MsgTypeURL(msg), att), validBasic, []string{"owner/" + sdk.MsgTypeURL(msg)}, map[string]any{"type": sdk.MsgTypeURL(msg), "attacker": w.nameOf(att), "validate_basic_ok": validBasic})
	})
	_ = ammtypes.ModuleName
}

// grantLesserPrivileges gives an address, in the case's branch of the state, every permission short of the
// governance authority.
func grantLesserPrivileges(w *World, ctx sdk.Context, a sdk.AccAddress) {
	ap := w.App.AmmKeeper.GetParams(ctx)
	ap.AllowedPoolCreators = append(append([]string{}, ap.AllowedPoolCreators...), a.String())
	w.App.AmmKeeper.SetParams(ctx, ap)
	w.App.LeveragelpKeeper.WhitelistAddress(ctx, a)
	w.App.PerpetualKeeper.WhitelistAddress(ctx, a)
	w.App.OracleKeeper.SetPriceFeeder(ctx, oracletypes2.PriceFeeder{Feeder: a.String(), IsActive: true})
}

// plantStoredAuthority writes, into the case's branch of the state, the record a message addresses with the
// given address as its stored authority. Reports whether the message type has such a record.
func plantStoredAuthority(w *World, ctx sdk.Context, msg sdk.Msg, auth string) bool {
	switch m := msg.(type) {
	case *tokenomicstypes.MsgUpdateAirdrop:
		w.App.TokenomicsKeeper.SetAirdrop(ctx, tokenomicstypes.Airdrop{Authority: auth, Intent: m.Intent, Amount: 1000, Expiry: uint64(ctx.BlockTime().Unix()) + 100000})
	case *tokenomicstypes.MsgDeleteAirdrop:
		w.App.TokenomicsKeeper.SetAirdrop(ctx, tokenomicstypes.Airdrop{Authority: auth, Intent: m.Intent, Amount: 1000, Expiry: uint64(ctx.BlockTime().Unix()) + 100000})
	case *tokenomicstypes.MsgUpdateTimeBasedInflation:
		w.App.TokenomicsKeeper.SetTimeBasedInflation(ctx, tokenomicstypes.TimeBasedInflation{Authority: auth, StartBlockHeight: m.StartBlockHeight, EndBlockHeight: m.EndBlockHeight, Description: "planted",
			Inflation: &tokenomicstypes.InflationEntry{LmRewards: 1, IcsStakingRewards: 1, CommunityFund: 1, StrategicReserve: 1, TeamTokensVested: 1}})
	case *tokenomicstypes.MsgDeleteTimeBasedInflation:
		w.App.TokenomicsKeeper.SetTimeBasedInflation(ctx, tokenomicstypes.TimeBasedInflation{Authority: auth, StartBlockHeight: m.StartBlockHeight, EndBlockHeight: m.EndBlockHeight, Description: "planted",
			Inflation: &tokenomicstypes.InflationEntry{LmRewards: 1, IcsStakingRewards: 1, CommunityFund: 1, StrategicReserve: 1, TeamTokensVested: 1}})
	case *aptypes2.MsgUpdateEntry:
		w.App.AssetprofileKeeper.SetEntry(ctx, aptypes2.Entry{Authority: auth, BaseDenom: m.BaseDenom, Denom: m.BaseDenom, Decimals: 6, DisplayName: "PLANTED"})
	case *aptypes2.MsgDeleteEntry:
		w.App.AssetprofileKeeper.SetEntry(ctx, aptypes2.Entry{Authority: auth, BaseDenom: m.BaseDenom, Denom: m.BaseDenom, Decimals: 6, DisplayName: "PLANTED"})
	default:
		return false
	}
	return true
}

// execHandler calls the registered handler directly (no ValidateBasic) on a cache context.
func execHandler(w *World, ctx sdk.Context, msg sdk.Msg) (err error, panicked bool) {
	h := w.App.MsgServiceRouter().Handler(msg)
	if h == nil {
		return errNoHandler, false
	}
	defer func() {
		if r := recover(); r != nil {
			err, panicked = &panicErr{r}, true
		}
	}()
	_, e := h(ctx, msg)
	return e, false
}

// mustReject: the handler must fail (error or panic). Like baseapp.runTx the handler runs on a branch
// of the state that is written back only on success, so a rejected message leaves the state
// byte-for-byte unchanged; the hash over all stores is compared before and after to confirm that the
// rollback path really restores everything the handler may have written before it failed (e.g. a
// batch cancel that processes its own orders before it meets a foreign one).
func mustReject(w *World, ctx sdk.Context, msg sdk.Msg) string {
	before := stateHash(w, ctx)
	branch, write := ctx.CacheContext()
	err, _ := execHandler(w, branch, msg)
	if err == nil {
		write()
	}
	after := stateHash(w, ctx)
	url := sdk.MsgTypeURL(msg)
	if err == nil {
		return fmt.Sprintf("%s sent by someone who is not the governance authority / not the owner was accepted", url)
	}
	if before != after {
		return fmt.Sprintf("%s was rejected (%v) but the state changed", url, err)
	}
	return ""
}

// safeValidateBasic: a panic in ValidateBasic (e.g. nil params) rejects the tx like an error.
func safeValidateBasic(msg sdk.Msg) (ok bool) {
	defer func() {
		if r := recover(); r != nil {
			ok = false
		}
	}()
	if vb, is := msg.(sdk.HasValidateBasic); is && vb.ValidateBasic() != nil {
		return false
	}
	return true
}

// mixedIds: a batch that always contains the victim's id, optionally the attacker's own id and a
// non-existent id, in a generated order (own id last, first, ...).
func mixedIds(rt *rapid.T, victim, own uint64) []uint64 {
	ids := []uint64{victim}
	if UniformDraw(rt, "batch/own", 3) > 0 {
		ids = append(ids, own)
	}
	if UniformDraw(rt, "batch/bogus", 4) == 0 {
		ids = append(ids, 9999)
	}
	if UniformDraw(rt, "batch/dup", 5) == 0 {
		ids = append(ids, own)
	}
	// generated permutation
	for i := len(ids) - 1; i > 0; i-- {
		j := UniformDraw(rt, "batch/perm", i+1)
		ids[i], ids[j] = ids[j], ids[i]
	}
	return ids
}
