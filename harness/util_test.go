package harness

import (
	"encoding/json"
	"os"
	"testing"
)

// TestDumpDefaultSpec writes the default world spec as JSON (tooling; VERIF_DUMP_SPEC=path).
func TestDumpDefaultSpec(t *testing.T) {
	path := os.Getenv("VERIF_DUMP_SPEC")
	if path == "" {
		t.Skip("tooling only")
	}
	bz, _ := json.MarshalIndent(DefaultWorldSpec(), "", " ")
	if err := os.WriteFile(path, bz, 0o644); err != nil {
		t.Fatal(err)
	}
}
