package harness

import (
	"os"
	"time"
)

// ShrinkTrace minimises a failing concrete trace by delta debugging over its blocks
// and transactions, re-executing candidates with ReplayTrace (no rapid involved).
// A candidate is kept when the oracle still reports a violation with the same
// signature. Complements rapid's own shrinking of the draw stream, which is slow for
// second-long cases.
func ShrinkTrace(p *Profile, tr *Trace, budget time.Duration) *Trace {
	if len(tr.Violations) == 0 {
		return tr
	}
	want := tr.Violations[0].Sig
	deadline := time.Now().Add(budget)
	fails := func(c *Trace) []Violation {
		vs, err := ReplayTrace(p, c)
		if err != nil || len(vs) == 0 {
			return nil
		}
		for _, v := range vs {
			if v.Sig == want {
				return vs
			}
		}
		return nil
	}
	cur := cloneTrace(tr)
	if vs := fails(cur); vs == nil {
		return tr // not reproducible by replay: keep the original
	} else {
		cur.Violations = vs
	}
	// cut everything after the violating block
	changed := true
	for changed && time.Now().Before(deadline) {
		changed = false
		// 1. drop trailing blocks
		for len(cur.Blocks) > 1 && time.Now().Before(deadline) {
			c := cloneTrace(cur)
			c.Blocks = c.Blocks[:len(c.Blocks)-1]
			if vs := fails(c); vs != nil {
				c.Violations = vs
				cur = c
				changed = true
			} else {
				break
			}
		}
		// 2. drop chunks of txs (halves, then single), scanning from the end
		type pos struct{ b, t int }
		var all []pos
		for bi, b := range cur.Blocks {
			for ti := range b.Txs {
				all = append(all, pos{bi, ti})
			}
		}
		for chunk := len(all) / 2; chunk >= 1 && time.Now().Before(deadline); chunk /= 2 {
			for start := len(all) - chunk; start >= 0 && time.Now().Before(deadline); start -= chunk {
				drop := map[pos]bool{}
				for _, q := range all[start : start+chunk] {
					drop[q] = true
				}
				c := cloneTrace(cur)
				for bi := range c.Blocks {
					var keep []TraceTx
					for ti, tx := range c.Blocks[bi].Txs {
						if !drop[pos{bi, ti}] {
							keep = append(keep, tx)
						}
					}
					c.Blocks[bi].Txs = keep
				}
				if vs := fails(c); vs != nil {
					c.Violations = vs
					cur = c
					changed = true
					all = nil
					for bi, b := range cur.Blocks {
						for ti := range b.Txs {
							all = append(all, pos{bi, ti})
						}
					}
					if start > len(all)-chunk {
						start = len(all) - chunk + chunk
					}
				}
			}
		}
		// 3. merge empty blocks into the following block (gap added) or drop them
		for bi := len(cur.Blocks) - 2; bi >= 0 && time.Now().Before(deadline); bi-- {
			if len(cur.Blocks[bi].Txs) != 0 || len(cur.Blocks[bi].Env) != 0 {
				continue
			}
			c := cloneTrace(cur)
			c.Blocks = append(c.Blocks[:bi], c.Blocks[bi+1:]...)
			if vs := fails(c); vs != nil {
				c.Violations = vs
				cur = c
				changed = true
				continue
			}
			c = cloneTrace(cur)
			c.Blocks[bi+1].GapNs += c.Blocks[bi].GapNs
			c.Blocks = append(c.Blocks[:bi], c.Blocks[bi+1:]...)
			if vs := fails(c); vs != nil {
				c.Violations = vs
				cur = c
				changed = true
			}
		}
		// 4. shorten long gaps to 5s where it does not matter
		for bi := range cur.Blocks {
			if cur.Blocks[bi].GapNs <= int64(6*time.Second) || !time.Now().Before(deadline) {
				continue
			}
			c := cloneTrace(cur)
			c.Blocks[bi].GapNs = int64(5 * time.Second)
			if vs := fails(c); vs != nil {
				c.Violations = vs
				cur = c
				changed = true
			}
		}
	}
	return cur
}

func cloneTrace(t *Trace) *Trace {
	c := *t
	c.Blocks = make([]TraceBlock, len(t.Blocks))
	for i, b := range t.Blocks {
		nb := b
		nb.Txs = append([]TraceTx{}, b.Txs...)
		nb.Env = append([]EnvAction{}, b.Env...)
		c.Blocks[i] = nb
	}
	c.Violations = append([]Violation{}, t.Violations...)
	return &c
}

// shrinkFromEnv: VERIF_SHRINK=<trace> runs the trace-level shrinker and rewrites
// VERIF_FAILTRACE with the minimal trace.
func shrinkFromEnv(p *Profile) (*Trace, bool) {
	path := os.Getenv("VERIF_SHRINK")
	if path == "" {
		return nil, false
	}
	tr, err := LoadTrace(path)
	if err != nil {
		return nil, true
	}
	secs := envInt("VERIF_SHRINK_SECS", 90)
	min := ShrinkTrace(p, tr, time.Duration(secs)*time.Second)
	writeFailTrace(min)
	return min, true
}
