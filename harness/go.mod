module verif/harness

go 1.23

toolchain go1.23.5

require (
	cosmossdk.io/log v1.4.1
	cosmossdk.io/math v1.4.0
	cosmossdk.io/store v1.1.1
	cosmossdk.io/x/upgrade v0.1.4
	github.com/cometbft/cometbft v0.38.12
	github.com/cosmos/cosmos-db v1.0.2
	github.com/cosmos/cosmos-sdk v0.50.9
	github.com/cosmos/gogoproto v1.7.0
	github.com/cosmos/interchain-security/v6 v6.3.0
	github.com/elys-network/elys v0.0.0
	pgregory.net/rapid v1.3.0
)

require (
	cloud.google.com/go v0.115.0 // indirect
	cloud.google.com/go/auth v0.6.0 // indirect
	cloud.google.com/go/auth/oauth2adapt v0.2.2 // indirect
	cloud.google.com/go/compute/metadata v0.5.0 // indirect
	cloud.google.com/go/iam v1.1.9 // indirect
	cloud.google.com/go/storage v1.41.0 // indirect
	cosmossdk.io/api v0.7.5 // indirect
	cosmossdk.io/client/v2 v2.0.0-beta.3 // indirect
	cosmossdk.io/collections v0.4.0 // indirect
	cosmossdk.io/core v0.11.1 // indirect
	cosmossdk.io/depinject v1.0.0 // indirect
	cosmossdk.io/errors v1.0.1 // indirect
	cosmossdk.io/simapp v0.0.0-20240118210941-3897926e722e // indirect
	cosmossdk.io/x/evidence v0.1.1 // indirect
	cosmossdk.io/x/feegrant v0.1.1 // indirect
	cosmossdk.io/x/tx v0.13.5 // indirect
	filippo.io/edwards25519 v1.1.0 // indirect
	github.com/99designs/keyring v1.2.2 // indirect
	github.com/DataDog/datadog-go v3.2.0+incompatible // indirect
	github.com/aws/aws-sdk-go v1.44.224 // indirect
	github.com/bandprotocol/bandchain-packet v0.0.2 // indirect
	github.com/beorn7/perks v1.0.1 // indirect
	github.com/bgentry/go-netrc v0.0.0-20140422174119-9fd32a8b3d3d // indirect
	github.com/bgentry/speakeasy v0.1.1-0.20220910012023-760eaf8b6816 // indirect
	github.com/bits-and-blooms/bitset v1.8.0 // indirect
	github.com/btcsuite/btcd/btcec/v2 v2.3.4 // indirect
	github.com/cenkalti/backoff/v4 v4.3.0 // indirect
	github.com/cespare/xxhash/v2 v2.3.0 // indirect
	github.com/chzyer/readline v1.5.1 // indirect
	github.com/cockroachdb/apd/v2 v2.0.2 // indirect
	github.com/cockroachdb/errors v1.11.3 // indirect
	github.com/cockroachdb/logtags v0.0.0-20230118201751-21c54148d20b // indirect
	github.com/cockroachdb/redact v1.1.5 // indirect
	github.com/cometbft/cometbft-db v0.12.0 // indirect
	github.com/cosmos/btcutil v1.0.5 // indirect
	github.com/cosmos/cosmos-proto v1.0.0-beta.5 // indirect
	github.com/cosmos/go-bip39 v1.0.0 // indirect
	github.com/cosmos/gogogateway v1.2.0 // indirect
	github.com/cosmos/iavl v1.2.0 // indirect
	github.com/cosmos/ibc-apps/modules/ibc-hooks/v8 v8.0.0-20240904212233-8cb681e31589 // indirect
	github.com/cosmos/ibc-go/modules/capability v1.0.1 // indirect
	github.com/cosmos/ibc-go/v8 v8.5.1 // indirect
	github.com/cosmos/ics23/go v0.11.0 // indirect
	github.com/davecgh/go-spew v1.1.2-0.20180830191138-d8f796af33cc // indirect
	github.com/decred/dcrd/dcrec/secp256k1/v4 v4.2.0 // indirect
	github.com/desertbit/timer v0.0.0-20180107155436-c41aec40b27f // indirect
	github.com/dvsekhvalnov/jose2go v1.7.0 // indirect
	github.com/emicklei/dot v1.6.2 // indirect
	github.com/fatih/color v1.17.0 // indirect
	github.com/felixge/httpsnoop v1.0.4 // indirect
	github.com/fsnotify/fsnotify v1.7.0 // indirect
	github.com/getsentry/sentry-go v0.27.0 // indirect
	github.com/go-kit/kit v0.12.0 // indirect
	github.com/go-kit/log v0.2.1 // indirect
	github.com/go-logfmt/logfmt v0.6.0 // indirect
	github.com/go-logr/logr v1.4.2 // indirect
	github.com/go-logr/stdr v1.2.2 // indirect
	github.com/godbus/dbus v0.0.0-20190726142602-4481cbc300e2 // indirect
	github.com/gogo/googleapis v1.4.1 // indirect
	github.com/gogo/protobuf v1.3.2 // indirect
	github.com/golang/groupcache v0.0.0-20210331224755-41bb18bfe9da // indirect
	github.com/golang/mock v1.6.0 // indirect
	github.com/golang/protobuf v1.5.4 // indirect
	github.com/golang/snappy v0.0.5-0.20220116011046-fa5810519dcb // indirect
	github.com/google/btree v1.1.2 // indirect
	github.com/google/go-cmp v0.6.0 // indirect
	github.com/google/orderedcode v0.0.1 // indirect
	github.com/google/s2a-go v0.1.7 // indirect
	github.com/google/uuid v1.6.0 // indirect
	github.com/googleapis/enterprise-certificate-proxy v0.3.2 // indirect
	github.com/googleapis/gax-go/v2 v2.12.5 // indirect
	github.com/gorilla/handlers v1.5.2 // indirect
	github.com/gorilla/mux v1.8.1 // indirect
	github.com/gorilla/websocket v1.5.3 // indirect
	github.com/grpc-ecosystem/go-grpc-middleware v1.4.0 // indirect
	github.com/grpc-ecosystem/grpc-gateway v1.16.0 // indirect
	github.com/gsterjov/go-libsecret v0.0.0-20161001094733-a6f4afe4910c // indirect
	github.com/hashicorp/go-cleanhttp v0.5.2 // indirect
	github.com/hashicorp/go-getter v1.7.5 // indirect
	github.com/hashicorp/go-hclog v1.5.0 // indirect
	github.com/hashicorp/go-immutable-radix v1.3.1 // indirect
	github.com/hashicorp/go-metrics v0.5.3 // indirect
	github.com/hashicorp/go-plugin v1.5.2 // indirect
	github.com/hashicorp/go-safetemp v1.0.0 // indirect
	github.com/hashicorp/go-version v1.7.0 // indirect
	github.com/hashicorp/golang-lru v1.0.2 // indirect
	github.com/hashicorp/golang-lru/v2 v2.0.7 // indirect
	github.com/hashicorp/hcl v1.0.0 // indirect
	github.com/hashicorp/yamux v0.1.1 // indirect
	github.com/hdevalence/ed25519consensus v0.1.0 // indirect
	github.com/huandu/skiplist v1.2.0 // indirect
	github.com/iancoleman/strcase v0.3.0 // indirect
	github.com/improbable-eng/grpc-web v0.15.0 // indirect
	github.com/jmespath/go-jmespath v0.4.0 // indirect
	github.com/klauspost/compress v1.17.9 // indirect
	github.com/kr/pretty v0.3.1 // indirect
	github.com/kr/text v0.2.0 // indirect
	github.com/lib/pq v1.10.9 // indirect
	github.com/magiconair/properties v1.8.7 // indirect
	github.com/manifoldco/promptui v0.9.0 // indirect
	github.com/mattn/go-colorable v0.1.13 // indirect
	github.com/mattn/go-isatty v0.0.20 // indirect
	github.com/minio/highwayhash v1.0.2 // indirect
	github.com/mitchellh/go-homedir v1.1.0 // indirect
	github.com/mitchellh/go-testing-interface v1.14.1 // indirect
	github.com/mitchellh/mapstructure v1.5.0 // indirect
	github.com/mtibben/percent v0.2.1 // indirect
	github.com/munnerz/goautoneg v0.0.0-20191010083416-a7dc8b61c822 // indirect
	github.com/oasisprotocol/curve25519-voi v0.0.0-20230904125328-1f23a7beb09a // indirect
	github.com/oklog/run v1.1.0 // indirect
	github.com/pelletier/go-toml/v2 v2.2.2 // indirect
	github.com/pkg/errors v0.9.1 // indirect
	github.com/pmezard/go-difflib v1.0.1-0.20181226105442-5d4384ee4fb2 // indirect
	github.com/prometheus/client_golang v1.20.5 // indirect
	github.com/prometheus/client_model v0.6.1 // indirect
	github.com/prometheus/common v0.55.0 // indirect
	github.com/prometheus/procfs v0.15.1 // indirect
	github.com/rcrowley/go-metrics v0.0.0-20201227073835-cf1acfcdf475 // indirect
	github.com/rogpeppe/go-internal v1.12.0 // indirect
	github.com/rs/cors v1.11.1 // indirect
	github.com/rs/zerolog v1.33.0 // indirect
	github.com/sagikazarmark/slog-shim v0.1.0 // indirect
	github.com/spf13/afero v1.11.0 // indirect
	github.com/spf13/cast v1.7.0 // indirect
	github.com/spf13/cobra v1.8.1 // indirect
	github.com/spf13/pflag v1.0.5 // indirect
	github.com/spf13/viper v1.19.0 // indirect
	github.com/stretchr/testify v1.9.0 // indirect
	github.com/subosito/gotenv v1.6.0 // indirect
	github.com/syndtr/goleveldb v1.0.1-0.20220721030215-126854af5e6d // indirect
	github.com/tendermint/go-amino v0.16.0 // indirect
	github.com/tidwall/btree v1.7.0 // indirect
	github.com/ulikunitz/xz v0.5.11 // indirect
	go.opencensus.io v0.24.0 // indirect
	go.opentelemetry.io/contrib/instrumentation/google.golang.org/grpc/otelgrpc v0.49.0 // indirect
	go.opentelemetry.io/contrib/instrumentation/net/http/otelhttp v0.49.0 // indirect
	go.opentelemetry.io/otel v1.24.0 // indirect
	go.opentelemetry.io/otel/metric v1.24.0 // indirect
	go.opentelemetry.io/otel/trace v1.24.0 // indirect
	golang.org/x/crypto v0.26.0 // indirect
	golang.org/x/exp v0.0.0-20240613232115-7f521ea00fb8 // indirect
	golang.org/x/net v0.28.0 // indirect
	golang.org/x/oauth2 v0.22.0 // indirect
	golang.org/x/sync v0.8.0 // indirect
	golang.org/x/sys v0.24.0 // indirect
	golang.org/x/term v0.23.0 // indirect
	golang.org/x/text v0.17.0 // indirect
	golang.org/x/time v0.5.0 // indirect
	google.golang.org/api v0.186.0 // indirect
	google.golang.org/genproto v0.0.0-20240701130421-f6361c86f094 // indirect
	google.golang.org/genproto/googleapis/api v0.0.0-20240814211410-ddb44dafa142 // indirect
	google.golang.org/genproto/googleapis/rpc v0.0.0-20240814211410-ddb44dafa142 // indirect
	google.golang.org/grpc v1.67.1 // indirect
	google.golang.org/protobuf v1.34.2 // indirect
	gopkg.in/ini.v1 v1.67.0 // indirect
	gopkg.in/yaml.v2 v2.4.0 // indirect
	gopkg.in/yaml.v3 v3.0.1 // indirect
	gotest.tools/v3 v3.5.1 // indirect
	nhooyr.io/websocket v1.8.6 // indirect
	sigs.k8s.io/yaml v1.4.0 // indirect
)

replace (
	github.com/99designs/keyring => github.com/cosmos/keyring v1.2.0
	github.com/bandprotocol/bandchain-packet => github.com/elys-network/bandchain-packet v0.0.3-sdk47
	github.com/dgrijalva/jwt-go => github.com/golang-jwt/jwt/v4 v4.4.2
	github.com/elys-network/elys => /repo
	github.com/gin-gonic/gin => github.com/gin-gonic/gin v1.8.1
	github.com/syndtr/goleveldb => github.com/syndtr/goleveldb v1.0.1-0.20210819022825-2ae1ddf74ef7
)
