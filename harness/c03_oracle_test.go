package harness

import (
	"encoding/json"
	"fmt"
	"math/big"
	"os"
	"testing"

	sdkmath "cosmossdk.io/math"
	sdk "github.com/cosmos/cosmos-sdk/types"
	"pgregory.net/rapid"

	ammkeeper "github.com/elys-network/elys/x/amm/keeper"
	ammtypes "github.com/elys-network/elys/x/amm/types"
	oracletypes "github.com/elys-network/elys/x/oracle/types"
	ptypes "github.com/elys-network/elys/x/parameter/types"
)

// C03, oracle pools (E2): what the pool pays out is never worth more, at the oracle prices in
// force, than what the trader pays in.

type c03OCase struct {
	Property string `json:"property"`
	Kind     string `json:"kind"` // oracle-exact-in | oracle-exact-out
	Ra, Rb   string // reserves
	Aa, Ab   string // accounted balances
	Sa, Sb   string // snapshot reserves
	Wa, Wb   int64
	Pa, Pb   string // per-base-unit prices
	Ea, Eb   string // external liquidity ratios
	Fee      string
	Amount   string
	Params   int    // 0 default, 1 zero multiplier, 2 extreme exponent, 3 high multiplier
	PerpFac  string // weight breaking fee perpetual factor
	What     string `json:"violation,omitempty"`
}

func (c c03OCase) build() (ammtypes.Pool, ammtypes.Pool, fakeOracle, fakeAccounted, ammtypes.Params) {
	I := func(s string) sdkmath.Int { v, _ := sdkmath.NewIntFromString(s); return v }
	D := sdkmath.LegacyMustNewDecFromStr
	p := mkPool(1, true,
		ammtypes.PoolAsset{Token: sdk.NewCoin("uaaa", I(c.Ra)), Weight: sdkmath.NewInt(c.Wa), ExternalLiquidityRatio: D(c.Ea)},
		ammtypes.PoolAsset{Token: sdk.NewCoin("ubbb", I(c.Rb)), Weight: sdkmath.NewInt(c.Wb), ExternalLiquidityRatio: D(c.Eb)}, D(c.Fee))
	snap := clonePool(p)
	setReserve(&snap, "uaaa", I(c.Sa))
	setReserve(&snap, "ubbb", I(c.Sb))
	params := ammtypes.DefaultParams()
	switch c.Params {
	case 1:
		params.WeightBreakingFeeMultiplier = sdkmath.LegacyZeroDec()
	case 2:
		params.WeightBreakingFeeExponent = D("0.5")
	case 3:
		params.WeightBreakingFeeMultiplier = D("0.2")
		params.ThresholdWeightDifference = D("0.01")
	}
	return p, snap, fakeOracle{price: map[string]sdkmath.LegacyDec{"uaaa": D(c.Pa), "ubbb": D(c.Pb)}},
		fakeAccounted{bal: map[string]sdkmath.Int{"uaaa": I(c.Aa), "ubbb": I(c.Ab)}}, params
}

func runC03Oracle(c c03OCase) (violation string, nontrivial bool, labels []string) {
	p, snap, orc, acc, params := c.build()
	amt, _ := sdkmath.NewIntFromString(c.Amount)
	pa, pb := ratFromDec(orc.price["uaaa"]), ratFromDec(orc.price["ubbb"])
	fee := p.PoolParams.SwapFee
	perp := sdkmath.LegacyMustNewDecFromStr(c.PerpFac)
	type res struct {
		coin                             sdk.Coin
		slippageAmount, bonus, oracleAmt sdkmath.LegacyDec
	}
	if c.Kind == "oracle-exact-in" {
		r, err := safely(func() (res, error) {
			q := clonePool(p)
			coin, _, sl, bonus, oa, err := q.SwapOutAmtGivenIn(pureCtx(), orc, &snap, sdk.Coins{sdk.NewCoin("uaaa", amt)}, "ubbb", fee, acc, perp, params)
			return res{coin, sl, bonus, oa}, err
		})
		if err != nil {
			return "", false, []string{"rejected"}
		}
		out := r.coin.Amount
		if out.IsNegative() {
			return fmt.Sprintf("oracle exact-in returned a negative amount %s", out), true, nil
		}
		// out·Pb ≤ in·Pa + Pb
		lhs := new(big.Rat).Mul(ratFromInt(out), pb)
		rhs := new(big.Rat).Add(new(big.Rat).Mul(ratFromInt(amt), pa), pb)
		if lhs.Cmp(rhs) > 0 {
			return fmt.Sprintf("oracle pool pays %s ubbb (worth %s) for %s uaaa (worth %s) at the oracle prices", out, lhs.FloatString(12), amt, new(big.Rat).Mul(ratFromInt(amt), pa).FloatString(12)), true, nil
		}
		if r.slippageAmount.IsNegative() {
			return fmt.Sprintf("negative slippage amount %s", r.slippageAmount), true, nil
		}
		if r.bonus.IsPositive() {
			labels = append(labels, "bonus-offered")
			// a bonus may only be offered when the swap moves the (accounted) weights towards the target
			accAssets := p.GetAccountedBalance(pureCtx(), acc, p.PoolAssets)
			before := p.WeightDistanceFromTarget(pureCtx(), orc, accAssets)
			extRatio, _ := p.GetAssetExternalLiquidityRatio("ubbb")
			outAfterSlippage := r.oracleAmt.Sub(r.slippageAmount.Mul(extRatio)).TruncateInt()
			if after, err := p.NewPoolAssetsAfterSwap(pureCtx(), sdk.Coins{sdk.NewCoin("uaaa", amt)}, sdk.Coins{sdk.NewCoin("ubbb", outAfterSlippage)}, accAssets); err == nil {
				if d := p.WeightDistanceFromTarget(pureCtx(), orc, after); !d.LT(before) {
					return fmt.Sprintf("a rebalancing bonus (%s) is offered although the swap does not reduce the weight distance (%s -> %s)", r.bonus, before, d), true, nil
				}
			}
		}
		if r.bonus.GT(sdkmath.LegacyOneDec()) {
			return fmt.Sprintf("bonus factor %s above 100%%", r.bonus), true, nil
		}
	} else {
		rb, _ := sdkmath.NewIntFromString(c.Rb)
		r, err := safely(func() (res, error) {
			q := clonePool(p)
			coin, _, sl, bonus, oa, err := q.SwapInAmtGivenOut(pureCtx(), orc, &snap, sdk.Coins{sdk.NewCoin("ubbb", amt)}, "uaaa", fee, acc, perp, params)
			return res{coin, sl, bonus, oa}, err
		})
		if err != nil {
			return "", false, []string{"rejected"}
		}
		_ = rb
		in := r.coin.Amount
		// in·Pa + Pa ≥ out·Pb
		lhs := new(big.Rat).Add(new(big.Rat).Mul(ratFromInt(in), pa), pa)
		rhs := new(big.Rat).Mul(ratFromInt(amt), pb)
		if lhs.Cmp(rhs) < 0 {
			return fmt.Sprintf("oracle pool asks only %s uaaa (worth %s) for %s ubbb (worth %s) at the oracle prices", in, new(big.Rat).Mul(ratFromInt(in), pa).FloatString(12), amt, rhs.FloatString(12)), true, nil
		}
		if r.bonus.IsPositive() {
			labels = append(labels, "bonus-offered")
		}
	}
	ra, _ := sdkmath.NewIntFromString(c.Ra)
	ref := ra
	if c.Kind == "oracle-exact-out" {
		ref, _ = sdkmath.NewIntFromString(c.Rb)
	}
	if amt.LTE(sdkmath.NewInt(10)) {
		labels = append(labels, "dust-trade")
	}
	return "", amt.MulRaw(1_000_000).GTE(ref) && amt.LTE(ref), append(labels, c.Kind)
}

func TestC03Oracle(t *testing.T) {
	if path := os.Getenv("VERIF_REPLAY"); path != "" {
		bz, err := os.ReadFile(path)
		if err != nil {
			t.Fatalf("harness: %v", err)
		}
		var c c03OCase
		if err := json.Unmarshal(bz, &c); err != nil || (c.Kind != "oracle-exact-in" && c.Kind != "oracle-exact-out") {
			t.Skip("not an oracle case")
		}
		if v, _, _ := runC03Oracle(c); v != "" {
			t.Fatalf("VIOLATION C03 (replay): %s", v)
		}
		return
	}
	sum := newSummary()
	defer sum.emit()
	weights := [][2]int64{{1, 1}, {50, 50}, {2, 1}, {1, 2}, {80, 20}, {20, 80}, {3, 7}}
	fees := []string{"0", "0.001", "0.003", "0.02"}
	decStr := func(rt *rapid.T, label string, loExp, hiExp int) string {
		// price per base unit: m * 10^-e
		e := loExp + UniformDraw(rt, label+"/e", hiExp-loExp+1)
		m := 1 + UniformDraw(rt, label+"/m", 9999)
		d := sdkmath.LegacyNewDecWithPrec(int64(m), int64(e))
		if d.IsZero() {
			d = sdkmath.LegacySmallestDec()
		}
		return d.String()
	}
	rapid.Check(t, func(rt *rapid.T) {
		w := weights[UniformDraw(rt, "w", len(weights))]
		c := c03OCase{Property: "C03", Wa: w[0], Wb: w[1], Fee: fees[UniformDraw(rt, "fee", len(fees))], Params: UniformDraw(rt, "params", 4)}
		c.Kind = []string{"oracle-exact-in", "oracle-exact-out"}[UniformDraw(rt, "kind", 2)]
		ra, rb := logUniformInt(rt, "ra", 3, 22), logUniformInt(rt, "rb", 3, 22)
		c.Ra, c.Rb = ra.String(), rb.String()
		skew := func(label string, r sdkmath.Int) sdkmath.Int {
			switch UniformDraw(rt, label+"/sk", 4) {
			case 0:
				return r
			case 1:
				return sdkmath.ZeroInt() // no accounted record: falls back to the reserve
			default:
				return maxInt(r.MulRaw(int64(50+UniformDraw(rt, label+"/pct", 101))).QuoRaw(100), sdkmath.OneInt())
			}
		}
		c.Aa, c.Ab = skew("aa", ra).String(), skew("ab", rb).String()
		snapOf := func(label string, r sdkmath.Int) sdkmath.Int {
			if UniformDraw(rt, label+"/same", 2) == 0 {
				return r
			}
			return maxInt(r.MulRaw(int64(50+UniformDraw(rt, label+"/pct", 101))).QuoRaw(100), sdkmath.OneInt())
		}
		c.Sa, c.Sb = snapOf("sa", ra).String(), snapOf("sb", rb).String()
		c.Pa, c.Pb = decStr(rt, "pa", 4, 14), decStr(rt, "pb", 4, 14)
		ext := []string{"1", "1", "2", "10", "1000", "1.5"}
		c.Ea, c.Eb = ext[UniformDraw(rt, "ea", len(ext))], ext[UniformDraw(rt, "eb", len(ext))]
		c.PerpFac = []string{"1", "0.5"}[UniformDraw(rt, "perp", 2)]
		ref := ra
		if c.Kind == "oracle-exact-out" {
			ref = rb
		}
		var amt sdkmath.Int
		switch UniformDraw(rt, "amtclass", 8) {
		case 0:
			amt = sdkmath.NewInt(int64(1 + UniformDraw(rt, "dust", 10)))
		case 1:
			amt = ref.SubRaw(int64(UniformDraw(rt, "below", 3)))
		case 2:
			amt = ref.MulRaw(int64(2 + UniformDraw(rt, "mult", 50)))
		default:
			amt = ref.MulRaw(int64(1 + UniformDraw(rt, "ppm", 999_999))).QuoRaw(1_000_000)
		}
		if !amt.IsPositive() {
			amt = sdkmath.OneInt()
		}
		c.Amount = amt.String()
		v, nt, labels := runC03Oracle(c)
		if v != "" {
			c.What = v
			if p := os.Getenv("VERIF_FAILTRACE"); p != "" {
				bz, _ := json.MarshalIndent(c, "", " ")
				_ = os.WriteFile(p, bz, 0o644)
			}
			rt.Fatalf("VIOLATION C03: %s\ncase: %+v", v, c)
		}
		key, _ := json.Marshal(c)
		sum.record(string(key), nt, labels, c)
	})
}

// ---------------------------------------------------------------- keeper-level part (E3)

// TestC03Route: on the full app, a generated oracle-pool state (price, prior imbalance, treasury
// balance in {0, dust, large}); RouteExactAmountIn/Out measured through bank balances.
func TestC03Route(t *testing.T) {
	w, err := keeperFixture()
	if err != nil {
		t.Fatalf("harness: %v", err)
	}
	if os.Getenv("VERIF_REPLAY") != "" {
		t.Skip("route cases are not replayable from a file; see the log")
	}
	sum := newSummary()
	defer sum.emit()
	trader, other, whale := w.Accounts[0], w.Accounts[1], w.Accounts[2]
	bank := w.App.BankKeeper
	rapid.Check(t, func(rt *rapid.T) {
		ctx := caseCtx(w)
		k := w.App.AmmKeeper
		pool, _ := k.GetPool(ctx, 1)
		treasury := sdk.MustAccAddressFromBech32(pool.RebalanceTreasury)
		poolAddr := sdk.MustAccAddressFromBech32(pool.Address)
		// oracle price of ATOM moved
		price := sdkmath.LegacyNewDecWithPrec(int64(50+UniformDraw(rt, "price", 2000)), 2)
		w.App.OracleKeeper.SetPrice(ctx, oracletypes.Price{Asset: "ATOM", Price: price, Source: "elys", Provider: w.Feeder.Addr.String(), Timestamp: uint64(ctx.BlockTime().Unix()) + 1, BlockHeight: uint64(ctx.BlockHeight())})
		// prior imbalance: a large swap by the whale
		var hist []string
		if UniformDraw(rt, "imbalance", 3) > 0 {
			d := []string{ptypes.ATOM, ptypes.BaseCurrency}[UniformDraw(rt, "imbdir", 2)]
			o := ptypes.BaseCurrency
			if d == o {
				o = ptypes.ATOM
			}
			amt := reserveOf(&pool, d).MulRaw(int64(5 + UniformDraw(rt, "imbpct", 60))).QuoRaw(100)
			_, _, _, err := k.RouteExactAmountIn(ctx, whale.Addr, whale.Addr, []ammtypes.SwapAmountInRoute{{PoolId: 1, TokenOutDenom: o}}, sdk.NewCoin(d, amt), sdkmath.OneInt())
			hist = append(hist, fmt.Sprintf("imbalance %s%s err=%v", amt, d, err))
		}
		// treasury balance
		switch UniformDraw(rt, "treasury", 3) {
		case 1:
			_ = bank.SendCoins(ctx, whale.Addr, treasury, sdk.NewCoins(sdk.NewInt64Coin(ptypes.ATOM, 3), sdk.NewInt64Coin(ptypes.BaseCurrency, 3)))
			hist = append(hist, "treasury dust")
		case 2:
			_ = bank.SendCoins(ctx, whale.Addr, treasury, sdk.NewCoins(sdk.NewInt64Coin(ptypes.ATOM, 5_000_000_000), sdk.NewInt64Coin(ptypes.BaseCurrency, 20_000_000_000)))
			hist = append(hist, "treasury large")
		}
		pool, _ = k.GetPool(ctx, 1)
		inD := []string{ptypes.ATOM, ptypes.BaseCurrency}[UniformDraw(rt, "dir", 2)]
		outD := ptypes.BaseCurrency
		if inD == outD {
			outD = ptypes.ATOM
		}
		rcpt := trader
		if UniformDraw(rt, "rcpt", 3) == 0 {
			rcpt = other
		}
		bal := func(a sdk.AccAddress) sdk.Coins { return bank.GetAllBalances(ctx, a) }
		t0, r0, p0, y0 := bal(trader.Addr), bal(rcpt.Addr), bal(poolAddr), bal(treasury)
		exactIn := UniformDraw(rt, "form", 2) == 0
		var amt sdkmath.Int
		var rerr error
		if exactIn {
			amt = maxInt(reserveOf(&pool, inD).MulRaw(int64(1+UniformDraw(rt, "ppm", 300_000))).QuoRaw(1_000_000), sdkmath.OneInt())
			_, _, _, rerr = k.RouteExactAmountIn(ctx, trader.Addr, rcpt.Addr, []ammtypes.SwapAmountInRoute{{PoolId: 1, TokenOutDenom: outD}}, sdk.NewCoin(inD, amt), sdkmath.OneInt())
		} else {
			amt = maxInt(reserveOf(&pool, outD).MulRaw(int64(1+UniformDraw(rt, "ppm", 300_000))).QuoRaw(1_000_000), sdkmath.OneInt())
			_, _, _, rerr = k.RouteExactAmountOut(ctx, trader.Addr, rcpt.Addr, []ammtypes.SwapAmountOutRoute{{PoolId: 1, TokenInDenom: inD}}, reserveOf(&pool, inD).MulRaw(1000), sdk.NewCoin(outD, amt))
		}
		hist = append(hist, fmt.Sprintf("swap exactIn=%v %s->%s amt=%s rcpt=%s price=%s err=%v", exactIn, inD, outD, amt, rcpt.Name, price, rerr))
		if rerr != nil {
			sum.record(fmt.Sprint(hist), false, []string{"route-rejected"}, nil)
			return
		}
		fail := func(msg string) {
			writeFailLog("C03", msg, hist)
			rt.Fatalf("VIOLATION C03: %s\nhistory: %v", msg, hist)
		}
		t1, r1, p1, y1 := bal(trader.Addr), bal(rcpt.Addr), bal(poolAddr), bal(treasury)
		paid := t0.AmountOf(inD).Sub(t1.AmountOf(inD))
		got := r1.AmountOf(outD).Sub(r0.AmountOf(outD))
		if rcpt == trader {
			got = t1.AmountOf(outD).Sub(t0.AmountOf(outD))
		}
		tLoss := y0.AmountOf(outD).Sub(y1.AmountOf(outD)) // bonus is paid in the out denom
		if tLoss.IsNegative() {
			tLoss = sdkmath.ZeroInt()
		}
		pIn := ratFromDec(w.App.OracleKeeper.GetAssetPriceFromDenom(ctx, inD))
		pOut := ratFromDec(w.App.OracleKeeper.GetAssetPriceFromDenom(ctx, outD))
		// value received ≤ value paid + treasury's loss + one unit of each side
		lhs := new(big.Rat).Mul(ratFromInt(got), pOut)
		rhs := new(big.Rat).Add(new(big.Rat).Mul(ratFromInt(paid), pIn), new(big.Rat).Mul(ratFromInt(tLoss), pOut))
		rhs.Add(rhs, pOut).Add(rhs, pIn)
		if lhs.Cmp(rhs) > 0 {
			fail(fmt.Sprintf("trader received %s%s (worth %s) for %s%s (worth %s) while the treasury only lost %s%s", got, outD, lhs.FloatString(8), paid, inD, new(big.Rat).Mul(ratFromInt(paid), pIn).FloatString(8), tLoss, outD))
		}
		if tLoss.GT(y0.AmountOf(outD)) {
			fail(fmt.Sprintf("treasury paid a bonus of %s%s but held only %s", tLoss, outD, y0.AmountOf(outD)))
		}
		// pool bank delta == book delta
		np, _ := k.GetPool(ctx, 1)
		for _, a := range np.PoolAssets {
			d := a.Token.Denom
			if !p1.AmountOf(d).Sub(p0.AmountOf(d)).Equal(a.Token.Amount.Sub(reserveOf(&pool, d))) {
				fail(fmt.Sprintf("pool %s bank delta %s != book delta %s", d, p1.AmountOf(d).Sub(p0.AmountOf(d)), a.Token.Amount.Sub(reserveOf(&pool, d))))
			}
		}
		labels := []string{"route-ok"}
		if tLoss.IsPositive() {
			labels = append(labels, "bonus-paid")
		}
		sum.record(fmt.Sprint(hist), true, labels, hist)
	})
	_ = ammkeeper.Keeper{}
}
