package harness

import (
	"encoding/json"
	"fmt"
	"math/big"
	"os"
	"strings"
	"testing"

	sdkmath "cosmossdk.io/math"
	sdk "github.com/cosmos/cosmos-sdk/types"
	"pgregory.net/rapid"

	ammtypes "github.com/elys-network/elys/x/amm/types"
)

// C05 (E2): joining and exiting cannot extract value from the other liquidity providers.

type c05Op struct {
	Kind   string `json:"kind"` // join-all | join-single | exit-all | exit-single | swap
	A      string `json:"a,omitempty"`
	B      string `json:"b,omitempty"`
	Shares string `json:"shares,omitempty"`
	Denom  string `json:"denom,omitempty"`
}

type c05Case struct {
	Property string `json:"property"`
	Oracle   bool   `json:"oracle"`
	Ra, Rb   string
	Wa, Wb   int64
	Pa, Pb   string
	Total    string
	Fee      string
	Ops      []c05Op `json:"ops"`
	What     string  `json:"violation,omitempty"`
}

func (c c05Case) build() (ammtypes.Pool, fakeOracle, ammtypes.Params) {
	I := func(s string) sdkmath.Int { v, _ := sdkmath.NewIntFromString(s); return v }
	D := sdkmath.LegacyMustNewDecFromStr
	p := mkPool(1, c.Oracle,
		ammtypes.PoolAsset{Token: sdk.NewCoin("uaaa", I(c.Ra)), Weight: sdkmath.NewInt(c.Wa), ExternalLiquidityRatio: sdkmath.LegacyOneDec()},
		ammtypes.PoolAsset{Token: sdk.NewCoin("ubbb", I(c.Rb)), Weight: sdkmath.NewInt(c.Wb), ExternalLiquidityRatio: sdkmath.LegacyOneDec()}, D(c.Fee))
	p.TotalShares = sdk.NewCoin(p.TotalShares.Denom, I(c.Total))
	return p, fakeOracle{price: map[string]sdkmath.LegacyDec{"uaaa": D(c.Pa), "ubbb": D(c.Pb)}}, ammtypes.DefaultParams()
}

func poolValue(p *ammtypes.Pool, orc fakeOracle) *big.Rat {
	v := new(big.Rat)
	for _, a := range p.PoolAssets {
		v.Add(v, new(big.Rat).Mul(ratFromInt(a.Token.Amount), ratFromDec(orc.price[a.Token.Denom])))
	}
	return v
}

func coinsValue(cs sdk.Coins, orc fakeOracle) *big.Rat {
	v := new(big.Rat)
	for _, c := range cs {
		v.Add(v, new(big.Rat).Mul(ratFromInt(c.Amount), ratFromDec(orc.price[c.Denom])))
	}
	return v
}

func unitAllowance(orc fakeOracle) *big.Rat {
	// one base unit of each asset
	return new(big.Rat).Add(ratFromDec(orc.price["uaaa"]), ratFromDec(orc.price["ubbb"]))
}

// runC05 applies the ops to a pool copy and checks every relation after each step.
func runC05(c c05Case) (violation string, nontrivial bool, labels []string) {
	p, orc, params := c.build()
	acc := fakeAccounted{} // accounted balance == reserve (no open perpetual positions)
	ctx := pureCtx()
	I := func(s string) sdkmath.Int { v, _ := sdkmath.NewIntFromString(s); return v }
	joined, exited := false, false
	fractional := false
	// the keeper hands the pool as it was at the start of the block ("snapshot") to join/swap math; an
	// operation later in the same block therefore sees a snapshot that differs from the live pool
	blockSnap := clonePool(p)
	for i, op := range c.Ops {
		if op.Kind == "new-block" {
			blockSnap = clonePool(p)
			continue
		}
		before := clonePool(p)
		totalBefore := before.TotalShares.Amount
		valBefore := poolValue(&before, orc)
		step := fmt.Sprintf("step %d %s", i, op.Kind)
		postChecks := func(minted, burned sdkmath.Int) string {
			for _, a := range p.PoolAssets {
				if !a.Token.Amount.IsPositive() {
					return fmt.Sprintf("%s: reserve of %s is %s after the operation", step, a.Token.Denom, a.Token.Amount)
				}
			}
			if !p.TotalShares.Amount.IsPositive() {
				return fmt.Sprintf("%s: total shares %s after the operation", step, p.TotalShares.Amount)
			}
			return ""
		}
		switch op.Kind {
		case "join-all":
			tokensIn := sdk.NewCoins(sdk.NewCoin("uaaa", I(op.A)), sdk.NewCoin("ubbb", I(op.B)))
			type jr struct {
				joined sdk.Coins
				shares sdkmath.Int
			}
			r, err := safely(func() (jr, error) {
				snap := clonePool(blockSnap)
				tj, n, _, _, err := p.JoinPool(ctx, &snap, orc, acc, tokensIn, params)
				return jr{tj, n}, err
			})
			if err != nil {
				p = before
				labels = append(labels, "join-rejected")
				continue
			}
			joined = true
			if r.shares.IsNegative() {
				return fmt.Sprintf("%s: negative shares minted", step), true, nil
			}
			// shares/total ≤ joined_i/reserve_i for every asset; nothing taken beyond tokensIn
			for _, a := range before.PoolAssets {
				j := r.joined.AmountOf(a.Token.Denom)
				if j.GT(tokensIn.AmountOf(a.Token.Denom)) {
					return fmt.Sprintf("%s: took %s%s, more than the %s offered", step, j, a.Token.Denom, tokensIn.AmountOf(a.Token.Denom)), true, nil
				}
				if r.shares.Mul(a.Token.Amount).GT(j.Mul(totalBefore)) {
					return fmt.Sprintf("%s: minted %s of %s shares for %s of a %s reserve of %s (more than pro rata)", step, r.shares, totalBefore, j, a.Token.Amount, a.Token.Denom), true, nil
				}
				if !r.shares.Mul(a.Token.Amount).Equal(j.Mul(totalBefore)) {
					fractional = true
				}
			}
			if v := postChecks(r.shares, sdkmath.ZeroInt()); v != "" {
				return v, true, nil
			}
			// immediate exit of exactly the minted shares returns at most the deposit
			if r.shares.IsPositive() {
				q := clonePool(p)
				out, err := safely(func() (sdk.Coins, error) { return q.ExitPool(ctx, orc, acc, r.shares, "", params) })
				if err == nil {
					for _, cn := range out {
						if cn.Amount.GT(r.joined.AmountOf(cn.Denom)) {
							return fmt.Sprintf("%s: join then immediate exit of the minted shares returned %s%s for %s deposited", step, cn.Amount, cn.Denom, r.joined.AmountOf(cn.Denom)), true, nil
						}
					}
				}
			}
		case "join-single":
			tokensIn := sdk.NewCoins(sdk.NewCoin(op.Denom, I(op.A)))
			type jr struct {
				joined sdk.Coins
				shares sdkmath.Int
			}
			r, err := safely(func() (jr, error) {
				snap := clonePool(blockSnap)
				tj, n, _, _, err := p.JoinPool(ctx, &snap, orc, acc, tokensIn, params)
				return jr{tj, n}, err
			})
			if err != nil {
				p = before
				labels = append(labels, "join-rejected")
				continue
			}
			joined = true
			fractional = true
			if c.Oracle {
				// shares · value-per-share-before ≤ value deposited + one unit per asset
				lhs := new(big.Rat).Mul(ratFromInt(r.shares), valBefore)
				rhs := new(big.Rat).Mul(new(big.Rat).Add(coinsValue(r.joined, orc), unitAllowance(orc)), ratFromInt(totalBefore))
				// RoundInt on the share count: half a share is allowed on top
				rhs.Add(rhs, valBefore)
				if lhs.Cmp(rhs) > 0 {
					return fmt.Sprintf("%s: %s shares minted for a single-asset deposit worth %s while a share is worth %s", step, r.shares, coinsValue(r.joined, orc).FloatString(10), new(big.Rat).Quo(valBefore, ratFromInt(totalBefore)).FloatString(18)), true, nil
				}
			} else {
				// balancer single-asset join: shares ≤ S·((1+a/Ba)^(wa/W) − 1) + allowance  (fee only lowers it)
				var wa int64
				var ba sdkmath.Int
				for _, a := range before.PoolAssets {
					if a.Token.Denom == op.Denom {
						wa, ba = a.Weight.Int64(), a.Token.Amount
					}
				}
				W := c.Wa + c.Wb
				g := gcd64(wa, W)
				wan, Wn := wa/g, W/g
				tol := new(big.Int).Add(big.NewInt(1), ceilMulFracBig(totalBefore.BigInt(), 4, 100_000_000))
				// the power approximation's 1e-8 is relative to the power itself, (1+a/B)^(w/W) <= 1+a/B: for deposits
				// that are multiples of the reserve the allowance grows by that factor
				if ja := r.joined.AmountOf(op.Denom); ja.GT(ba) && ba.IsPositive() {
					tol.Mul(tol, new(big.Int).Add(big.NewInt(2), new(big.Int).Quo(ja.BigInt(), ba.BigInt())))
				}
				lhsBase := new(big.Rat).Quo(new(big.Rat).SetInt(new(big.Int).Add(totalBefore.BigInt(), new(big.Int).Sub(r.shares.BigInt(), tol))), ratFromInt(totalBefore))
				rhsBase := new(big.Rat).Quo(ratFromInt(ba.Add(r.joined.AmountOf(op.Denom))), ratFromInt(ba))
				if lhsBase.Sign() > 0 && ratPow(lhsBase, Wn).Cmp(ratPow(rhsBase, wan)) > 0 {
					return fmt.Sprintf("%s: %s shares minted for %s%s into a reserve of %s (supply %s, weight %d/%d): more than the weighted formula allows", step, r.shares, r.joined.AmountOf(op.Denom), op.Denom, ba, totalBefore, wa, W), true, nil
				}
			}
			if v := postChecks(r.shares, sdkmath.ZeroInt()); v != "" {
				return v, true, nil
			}
		case "exit-all", "exit-single":
			shares := I(op.Shares)
			denom := ""
			if op.Kind == "exit-single" {
				denom = op.Denom
			}
			out, err := safely(func() (sdk.Coins, error) { return p.ExitPool(ctx, orc, acc, shares, denom, params) })
			if err != nil {
				p = before
				labels = append(labels, "exit-rejected")
				continue
			}
			exited = true
			if shares.GTE(totalBefore) {
				return fmt.Sprintf("%s: exiting %s of %s shares was accepted", step, shares, totalBefore), true, nil
			}
			if denom == "" {
				for _, a := range before.PoolAssets {
					o := out.AmountOf(a.Token.Denom)
					if o.Mul(totalBefore).GT(shares.Mul(a.Token.Amount)) {
						return fmt.Sprintf("%s: paid %s%s for %s of %s shares of a reserve of %s (more than pro rata)", step, o, a.Token.Denom, shares, totalBefore, a.Token.Amount), true, nil
					}
					if !o.Mul(totalBefore).Equal(shares.Mul(a.Token.Amount)) {
						fractional = true
					}
				}
			} else {
				fractional = true
				// value paid ≤ pro-rata claim + one unit (RoundInt: half a unit of the out token)
				lhs := new(big.Rat).Mul(coinsValue(out, orc), ratFromInt(totalBefore))
				rhs := new(big.Rat).Add(new(big.Rat).Mul(ratFromInt(shares), valBefore), new(big.Rat).Mul(unitAllowance(orc), ratFromInt(totalBefore)))
				if lhs.Cmp(rhs) > 0 {
					return fmt.Sprintf("%s: single-denom exit paid %s (worth %s) for %s of %s shares of a pool worth %s", step, out, coinsValue(out, orc).FloatString(10), shares, totalBefore, valBefore.FloatString(10)), true, nil
				}
			}
			// the book must have been reduced by exactly what is paid
			for _, a := range before.PoolAssets {
				want := a.Token.Amount.Sub(out.AmountOf(a.Token.Denom))
				if got := reserveOf(&p, a.Token.Denom); !got.Equal(want) {
					return fmt.Sprintf("%s: paid %s%s but the reserve went %s -> %s", step, out.AmountOf(a.Token.Denom), a.Token.Denom, a.Token.Amount, got), true, nil
				}
			}
			if v := postChecks(sdkmath.ZeroInt(), shares); v != "" {
				return v, true, nil
			}
		}
		// value per share of the liquidity left behind never decreases (beyond one unit per asset)
		if op.Kind != "swap" {
			totalAfter := p.TotalShares.Amount
			valAfter := poolValue(&p, orc)
			if c.Oracle || op.Kind == "join-all" || op.Kind == "exit-all" {
				// valAfter/totalAfter ≥ valBefore/totalBefore − allowance/totalAfter
				lhs := new(big.Rat).Mul(new(big.Rat).Add(valAfter, new(big.Rat).Add(unitAllowance(orc), new(big.Rat).Quo(valBefore, ratFromInt(totalBefore)))), ratFromInt(totalBefore))
				rhs := new(big.Rat).Mul(valBefore, ratFromInt(totalAfter))
				if lhs.Cmp(rhs) < 0 {
					return fmt.Sprintf("%s: value per share fell from %s to %s", step, new(big.Rat).Quo(valBefore, ratFromInt(totalBefore)).FloatString(24), new(big.Rat).Quo(valAfter, ratFromInt(totalAfter)).FloatString(24)), true, nil
				}
			}
		}
	}
	return "", joined && exited && fractional, labels
}

func TestC05(t *testing.T) {
	if path := os.Getenv("VERIF_REPLAY"); path != "" {
		bz, err := os.ReadFile(path)
		if err != nil {
			t.Fatalf("harness: %v", err)
		}
		var c c05Case
		if err := json.Unmarshal(bz, &c); err != nil {
			t.Fatalf("harness: %v", err)
		}
		if v, _, _ := runC05(c); v != "" {
			t.Fatalf("VIOLATION C05 (replay): %s", v)
		}
		return
	}
	for _, k := range loadKnown() {
		if k.Property != "C05" || k.Replay == "" {
			continue
		}
		bz, err := os.ReadFile(k.Replay)
		if err != nil {
			t.Fatalf("harness: %v", err)
		}
		var c c05Case
		_ = json.Unmarshal(bz, &c)
		if v, _, _ := runC05(c); v != "" {
			if k.Status == "open" {
				EmitStats(map[string]any{"known_replay": k.ID, "property": "C05"})
			} else {
				copyFile(k.Replay, os.Getenv("VERIF_FAILTRACE"))
				t.Fatalf("VIOLATION C05 (replay of finding case %s): %s", k.ID, v)
			}
		}
	}
	sum := newSummary()
	defer sum.emit()
	weights := [][2]int64{{1, 1}, {50, 50}, {2, 1}, {1, 2}, {80, 20}, {3, 7}}
	rapid.Check(t, func(rt *rapid.T) {
		w := weights[UniformDraw(rt, "w", len(weights))]
		c := c05Case{Property: "C05", Oracle: UniformDraw(rt, "oracle", 2) == 1, Wa: w[0], Wb: w[1], Fee: []string{"0", "0.003", "0.02"}[UniformDraw(rt, "fee", 3)]}
		ra, rb := logUniformInt(rt, "ra", 2, 24), logUniformInt(rt, "rb", 2, 24)
		c.Ra, c.Rb = ra.String(), rb.String()
		c.Total = logUniformInt(rt, "total", 18, 30).String()
		c.Pa = sdkmath.LegacyNewDecWithPrec(int64(1+UniformDraw(rt, "pa", 9999)), int64(4+UniformDraw(rt, "pae", 10))).String()
		c.Pb = sdkmath.LegacyNewDecWithPrec(int64(1+UniformDraw(rt, "pb", 9999)), int64(4+UniformDraw(rt, "pbe", 10))).String()
		// track the evolving pool for state-dependent arguments
		p, orc, params := c.build()
		n := 1 + UniformDraw(rt, "nops", 6)
		for i := 0; i < n; i++ {
			total := p.TotalShares.Amount
			a, b := reserveOf(&p, "uaaa"), reserveOf(&p, "ubbb")
			var op c05Op
			switch UniformDraw(rt, "op", 8) {
			case 0, 1:
				// ratios exact / skewed / dust
				ppm := int64(1 + UniformDraw(rt, "jppm", 500_000))
				ja, jb := maxInt(a.MulRaw(ppm).QuoRaw(1_000_000), sdkmath.OneInt()), maxInt(b.MulRaw(ppm).QuoRaw(1_000_000), sdkmath.OneInt())
				switch UniformDraw(rt, "jshape", 4) {
				case 1:
					ja = ja.MulRaw(int64(1 + UniformDraw(rt, "skew", 5)))
				case 2:
					ja, jb = sdkmath.NewInt(int64(1+UniformDraw(rt, "da", 5))), sdkmath.NewInt(int64(1+UniformDraw(rt, "db", 5)))
				case 3:
					ja = ja.AddRaw(1)
				}
				op = c05Op{Kind: "join-all", A: ja.String(), B: jb.String()}
			case 2:
				d := []string{"uaaa", "ubbb"}[UniformDraw(rt, "jd", 2)]
				amt := maxInt(reserveOf(&p, d).MulRaw(int64(1+UniformDraw(rt, "sppm", 900_000))).QuoRaw(1_000_000), sdkmath.OneInt())
				if UniformDraw(rt, "smult?", 4) == 0 {
					// "deposit sizes from dust to multiples of the pool"
					amt = reserveOf(&p, d).MulRaw(int64(1 + UniformDraw(rt, "smult", 12))).AddRaw(int64(UniformDraw(rt, "smultd", 3)) - 1)
					if !amt.IsPositive() {
						amt = sdkmath.OneInt()
					}
				}
				op = c05Op{Kind: "join-single", A: amt.String(), Denom: d}
			case 3, 4:
				var s sdkmath.Int
				switch UniformDraw(rt, "xs", 6) {
				case 0:
					s = sdkmath.OneInt()
				case 1:
					s = total.SubRaw(1)
				case 2:
					s = total
				case 3:
					s = total.AddRaw(1)
				default:
					s = maxInt(total.MulRaw(int64(1+UniformDraw(rt, "xppm", 999_999))).QuoRaw(1_000_000), sdkmath.OneInt())
				}
				op = c05Op{Kind: "exit-all", Shares: s.String()}
			case 5, 6:
				if !c.Oracle {
					op = c05Op{Kind: "exit-all", Shares: maxInt(total.MulRaw(int64(1+UniformDraw(rt, "xppm2", 999_999))).QuoRaw(1_000_000), sdkmath.OneInt()).String()}
					break
				}
				d := []string{"uaaa", "ubbb"}[UniformDraw(rt, "xd", 2)]
				// include the share amount whose value equals one whole reserve
				var s sdkmath.Int
				if UniformDraw(rt, "drain", 3) == 0 {
					val := poolValue(&p, orc)
					res := new(big.Rat).Mul(ratFromInt(reserveOf(&p, d)), ratFromDec(orc.price[d]))
					f := new(big.Rat).Quo(res, val) // fraction of shares worth the whole reserve
					x := new(big.Rat).Mul(f, ratFromInt(total))
					bi := new(big.Int).Quo(x.Num(), x.Denom())
					bi.Add(bi, big.NewInt(int64(UniformDraw(rt, "drainpm", 5)-2)))
					if bi.Sign() <= 0 {
						bi = big.NewInt(1)
					}
					s = sdkmath.NewIntFromBigInt(bi)
				} else {
					s = maxInt(total.MulRaw(int64(1+UniformDraw(rt, "xppm3", 700_000))).QuoRaw(1_000_000), sdkmath.OneInt())
				}
				op = c05Op{Kind: "exit-single", Shares: s.String(), Denom: d}
			default:
				if UniformDraw(rt, "newblock", 2) == 0 {
					op = c05Op{Kind: "new-block"}
				} else {
					op = c05Op{Kind: "exit-all", Shares: sdkmath.NewInt(int64(1 + UniformDraw(rt, "tiny", 1000))).String()}
				}
			}
			c.Ops = append(c.Ops, op)
			// advance the tracking pool the same way (ignore failures)
			func() {
				defer func() { _ = recover() }()
				q := clonePool(p)
				I := func(s string) sdkmath.Int { v, _ := sdkmath.NewIntFromString(s); return v }
				var err error
				switch op.Kind {
				case "join-all":
					snap := clonePool(q)
					_, _, _, _, err = q.JoinPool(pureCtx(), &snap, orc, fakeAccounted{}, sdk.NewCoins(sdk.NewCoin("uaaa", I(op.A)), sdk.NewCoin("ubbb", I(op.B))), params)
				case "join-single":
					snap := clonePool(q)
					_, _, _, _, err = q.JoinPool(pureCtx(), &snap, orc, fakeAccounted{}, sdk.NewCoins(sdk.NewCoin(op.Denom, I(op.A))), params)
				case "exit-all":
					_, err = q.ExitPool(pureCtx(), orc, fakeAccounted{}, I(op.Shares), "", params)
				case "exit-single":
					_, err = q.ExitPool(pureCtx(), orc, fakeAccounted{}, I(op.Shares), op.Denom, params)
				}
				if err == nil {
					p = q
				}
			}()
		}
		v, nt, labels := runC05(c)
		if v != "" {
			c.What = v
			if pth := os.Getenv("VERIF_FAILTRACE"); pth != "" {
				bz, _ := json.MarshalIndent(c, "", " ")
				_ = os.WriteFile(pth, bz, 0o644)
			}
			bz, _ := json.Marshal(c)
			rt.Fatalf("VIOLATION C05: %s\ncase: %s", v, bz)
		}
		var ks []string
		for _, o := range c.Ops {
			ks = append(ks, o.Kind)
		}
		key, _ := json.Marshal(c)
		if c.Oracle {
			labels = append(labels, "oracle-pool")
		}
		sum.record(string(key), nt, append(labels, strings.Join(ks, ",")[:0]+"ops"), c)
	})
}
