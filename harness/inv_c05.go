package harness

import (
	"fmt"
	"math"
	"math/big"
	"sort"
	"strings"

	sdkmath "cosmossdk.io/math"
	sdk "github.com/cosmos/cosmos-sdk/types"
	banktypes "github.com/cosmos/cosmos-sdk/x/bank/types"

	ammtypes "github.com/elys-network/elys/x/amm/types"
	ctypes "github.com/elys-network/elys/x/commitment/types"
	lptypes "github.com/elys-network/elys/x/leveragelp/types"
	mctypes "github.com/elys-network/elys/x/masterchef/types"
	sstypes "github.com/elys-network/elys/x/stablestake/types"
	tiertypes "github.com/elys-network/elys/x/tier/types"
)

// Chain-level part of C05: "the per-share value of the liquidity left behind never decreases" when
// the only things that happened to a pool in a block are joins and exits (amm messages, leveragelp
// opens/closes and the leveragelp sweep, which are joins/exits of the position address) at unchanged
// oracle prices. The value is measured independently of the code's own TVL/accounted-pool path:
//
//	oracle pools:           Σ reserve_i * oraclePrice_i / TotalShares          (bank-backed reserves)
//	constant-product pools: Π reserve_i^(w_i/Σw) / TotalShares                 (the weighted-product invariant)
//
// Blocks containing anything else that can move reserves or prices (swaps, perpetual activity, price
// feeds, order executions, pending swap requests) are not judged, and neither are pools with open
// perpetual exposure (there joins/exits are priced on the accounted balance, not on the reserve).

func c05QuietTx(tx TxRecord) bool {
	switch tx.Msg.(type) {
	case *ammtypes.MsgJoinPool, *ammtypes.MsgExitPool,
		*lptypes.MsgOpen, *lptypes.MsgClose, *lptypes.MsgClosePositions, *lptypes.MsgClaimRewards, *lptypes.MsgUpdateStopLoss,
		*sstypes.MsgBond, *sstypes.MsgUnbond, *banktypes.MsgSend,
		*mctypes.MsgClaimRewards, *ctypes.MsgCommitClaimedRewards, *ctypes.MsgUncommitTokens, *ctypes.MsgClaimVesting, *ctypes.MsgVest, *ctypes.MsgCancelVest:
		return true
	}
	return false
}

type c05PoolValue struct {
	oracle bool
	val    float64 // per-share value (oracle) or log of per-share invariant (constant product)
	unit   float64 // relative size of one base unit of every asset
}

// held: what the pool really holds of a denom for its LPs – the booked reserve, but never more than the bank
// balance at the pool's address (donations make the bank balance larger than the book and belong to nobody;
// a bank balance below the book means the LPs' tokens went somewhere)
func held(s *Snapshot, p *ammtypes.Pool, a ammtypes.PoolAsset) sdkmath.Int {
	return sdkmath.MinInt(a.Token.Amount, s.BalOf(p.Address, a.Token.Denom))
}

func c05Value(s *Snapshot, p *ammtypes.Pool) (c05PoolValue, bool) {
	shares := p.TotalShares.Amount
	if !shares.IsPositive() {
		return c05PoolValue{}, false
	}
	sf, _ := new(big.Float).SetInt(shares.BigInt()).Float64()
	if p.PoolParams.UseOracle {
		nav, unit := 0.0, 0.0
		for _, a := range p.PoolAssets {
			price := snapshotPrice(s, a.Token.Denom)
			if !price.IsPositive() {
				return c05PoolValue{}, false
			}
			pf := price.MustFloat64()
			b, _ := new(big.Float).SetInt(held(s, p, a).BigInt()).Float64()
			nav += b * pf
			unit += pf
		}
		if nav <= 0 {
			return c05PoolValue{}, false
		}
		return c05PoolValue{oracle: true, val: nav / sf, unit: unit / nav}, true
	}
	tw := sdkmath.ZeroInt()
	for _, a := range p.PoolAssets {
		tw = tw.Add(a.Weight)
	}
	twf, _ := new(big.Float).SetInt(tw.BigInt()).Float64()
	lnV, unit := 0.0, 0.0
	for _, a := range p.PoolAssets {
		if !held(s, p, a).IsPositive() {
			return c05PoolValue{}, false
		}
		b, _ := new(big.Float).SetInt(held(s, p, a).BigInt()).Float64()
		w, _ := new(big.Float).SetInt(a.Weight.BigInt()).Float64()
		lnV += w / twf * math.Log(b)
		unit += w / twf / b
	}
	return c05PoolValue{val: lnV - math.Log(sf), unit: unit}, true
}

func snapshotPrice(s *Snapshot, denom string) sdkmath.LegacyDec {
	disp := displayOf(denom)
	best := -1
	for i := range s.Prices {
		p := &s.Prices[i]
		if p.Asset == disp && p.Source == "elys" && (best < 0 || p.Timestamp >= s.Prices[best].Timestamp) {
			best = i
		}
	}
	if best < 0 {
		return sdkmath.LegacyZeroDec()
	}
	return s.Prices[best].Price
}

func CheckC05Chain(h *History, blk *BlockRecord) []Violation {
	out := poolValueCheck(h, blk, c05QuietTx, "C05/per-share-value-fell", "c05", "only joins/exits")
	return append(out, c05Claims(h, blk)...)
}

// c05Claims: the liquidity providers' claims on a pool are the pool shares credited to them. If the credited shares
// add up to more than the shares that exist, somebody can withdraw a pro-rata slice that belongs to the others –
// value leaves the other providers although the value *per share* never moves.
func c05Claims(h *History, blk *BlockRecord) []Violation {
	var out []Violation
	s := h.Cur
	for _, p := range s.Pools {
		d := ammtypes.GetPoolShareDenom(p.PoolId)
		credited := sdkmath.ZeroInt()
		for _, c := range s.Commitments {
			for _, ct := range c.CommittedTokens {
				if ct.Denom == d {
					credited = credited.Add(ct.Amount)
				}
			}
		}
		for addr, bal := range s.Bal {
			_ = addr
			if addr != modAddr(ctypes.ModuleName) {
				credited = credited.Add(bal.AmountOf(d)) // liquid shares, wherever they sit
			}
		}
		if credited.GT(p.TotalShares.Amount) {
			out = append(out, Violation{Sig: "C05/claims-exceed-shares", Detail: fmt.Sprintf("pool %d: providers are credited %s shares, the pool has issued %s (height %d; %s)", p.PoolId, credited, p.TotalShares.Amount, s.Height, blockSummary(blk))})
		}
	}
	return out
}

// c03SwapTx: the block may also hold swaps (every form). Chain-level part of C03: a swap never pays out
// more than the curve / the oracle value allows, so the same per-share value cannot fall over a block of
// swaps either – whatever the order in which the end-blocker executes them and whatever state (live pool,
// per-block snapshot) each one was priced from.
func c03SwapTx(tx TxRecord) bool {
	switch tx.Msg.(type) {
	case *ammtypes.MsgSwapExactAmountIn, *ammtypes.MsgSwapExactAmountOut, *ammtypes.MsgSwapByDenom, *ammtypes.MsgFeedMultipleExternalLiquidity, *tiertypes.MsgSetPortfolio:
		return true
	}
	return c05QuietTx(tx)
}

func CheckC03Chain(h *History, blk *BlockRecord) []Violation {
	swaps := 0
	for _, tx := range blk.Txs {
		if tx.Code == 0 {
			switch tx.Msg.(type) {
			case *ammtypes.MsgSwapExactAmountIn, *ammtypes.MsgSwapExactAmountOut, *ammtypes.MsgSwapByDenom:
				swaps++
			}
		}
	}
	if swaps == 0 {
		return nil // join/exit-only blocks are C05's
	}
	if swaps >= 2 {
		h.Labels["c03-blocks-with>=2-swaps"]++
	}
	out := poolValueCheck(h, blk, c03SwapTx, "C03/per-share-value-fell-by-swaps", "c03", "only swaps, joins and exits")
	return append(out, c03FirstSwaps(h, blk)...)
}

// c03FirstSwaps: the first swap the end-blocker executes on a constant-product pool, against the closed formula.
// Swap requests are executed after every transaction of the block (and after the governance end-blocker), so the
// reserves that swap meets are the previous block's reserves plus the block's joins and exits – which are re-executed on
// a branch of the previous state. What the swap took in and paid out is read from its own event. Whatever state the
// implementation priced it from (live pool, per-block snapshot, a pricing mode that governance has just changed), the
// output must not exceed the fee-less weighted-product formula on those reserves by more than the stated allowance.
// Pools with perpetual or leveraged-LP activity are left out (other writers move their reserves inside the block).
func c03FirstSwaps(h *History, blk *BlockRecord) []Violation {
	if h.Prev == nil {
		return nil
	}
	first := map[uint64][2]sdk.Coin{}
	for _, e := range blk.Events {
		if e.Type != ammtypes.TypeEvtTokenSwapped {
			continue
		}
		var id uint64
		if _, err := fmt.Sscanf(attr(e, ammtypes.AttributeKeyPoolId), "%d", &id); err != nil {
			continue
		}
		if _, seen := first[id]; seen {
			continue
		}
		// the swap of a user's request, not the conversion of its fee (which the same code runs inside the swap, on the
		// reserves the swap has already moved, and reports first)
		if h.W.ByAddr[attr(e, "sender")] == nil {
			continue
		}
		in, err1 := sdk.ParseCoinsNormalized(attr(e, ammtypes.AttributeKeyTokensIn))
		outc, err2 := sdk.ParseCoinsNormalized(attr(e, ammtypes.AttributeKeyTokensOut))
		if err1 != nil || err2 != nil || len(in) != 1 || len(outc) != 1 {
			first[id] = [2]sdk.Coin{} // unreadable: not judged, and no later swap of this pool either
			continue
		}
		first[id] = [2]sdk.Coin{in[0], outc[0]}
	}
	if len(first) == 0 {
		return nil
	}
	// swaps that transactions execute themselves (not queued) would come first: none of the judged pools has such writers
	for _, tx := range blk.Txs {
		if tx.Code == 0 && (strings.Contains(tx.MsgType, ".perpetual.") || strings.Contains(tx.MsgType, ".leveragelp.")) {
			h.Labels["c03-first-swap-block-has-leveraged-activity"]++
			return nil
		}
	}
	ctx, ok := h.prevStateAtNewTime()
	if !ok {
		return nil
	}
	for _, tx := range blk.Txs {
		if tx.Code != 0 {
			continue
		}
		switch tx.Msg.(type) {
		case *ammtypes.MsgJoinPool, *ammtypes.MsgExitPool:
			if err, _ := execMsg(h.W, ctx, tx.Msg); err != nil {
				h.Labels["c03-first-swap-reconstruction-failed"]++
				return nil
			}
		}
	}
	var out []Violation
	for _, id := range sortedKeysU64(first) {
		io := first[id]
		p, q := h.Cur.Pool(id), h.Prev.Pool(id)
		if p == nil || q == nil || p.PoolParams.UseOracle || len(p.PoolAssets) != 2 || io[0].Denom == "" {
			continue
		}
		if perpPoolOf(h.Prev, id) || perpPoolOf(h.Cur, id) || len(h.Prev.LPPositions)+len(h.Cur.LPPositions) > 0 {
			continue
		}
		at, found := h.W.App.AmmKeeper.GetPool(ctx, id)
		if !found {
			continue
		}
		var bi, bo, wi, wo sdkmath.Int
		for _, a := range at.PoolAssets {
			switch a.Token.Denom {
			case io[0].Denom:
				bi, wi = a.Token.Amount, a.Weight
			case io[1].Denom:
				bo, wo = a.Token.Amount, a.Weight
			}
		}
		if bi.IsNil() || bo.IsNil() || !bi.IsPositive() || !bo.IsPositive() || !wi.IsInt64() || !wo.IsInt64() || !wi.IsPositive() || !wo.IsPositive() {
			continue
		}
		// weights are stored scaled by 2^30: reduce them (the bound is decided with integer powers)
		gw := gcd64(wi.Int64(), wo.Int64())
		wi, wo = wi.QuoRaw(gw), wo.QuoRaw(gw)
		if wi.Int64() > 200 || wo.Int64() > 200 {
			continue
		}
		h.Labels["c03-first-swaps-judged"]++
		if q.PoolParams.UseOracle {
			h.Labels["c03-first-swaps-judged-after-mode-switch"]++
		}
		if v := checkExactInBound(bi, bo, wi.Int64(), wo.Int64(), sdkmath.LegacyZeroDec(), io[0].Amount, io[1].Amount); v != "" {
			out = append(out, Violation{Sig: "C03/end-block-swap-beats-the-curve", Detail: fmt.Sprintf("pool %d (constant-product at the end of the block, oracle-priced before: %v): the first swap executed at the end of the block took %s and paid %s; on the reserves it met (%s) %s (height %d; %s)",
				id, q.PoolParams.UseOracle, io[0], io[1], poolReserves(&at), v, h.Cur.Height, blockSummary(blk))})
		}
	}
	return out
}

func sortedKeysU64[V any](m map[uint64]V) []uint64 {
	ks := make([]uint64, 0, len(m))
	for k := range m {
		ks = append(ks, k)
	}
	sort.Slice(ks, func(i, j int) bool { return ks[i] < ks[j] })
	return ks
}

func poolValueCheck(h *History, blk *BlockRecord, quiet func(TxRecord) bool, sig, lbl, what string) []Violation {
	if h.Prev == nil {
		return nil
	}
	nOps := 0
	for _, tx := range blk.Txs {
		if tx.Code != 0 {
			continue
		}
		if !quiet(tx) {
			h.Labels[lbl+"-block-not-quiet"]++
			return nil
		}
		nOps++
	}
	if lbl == "c05" && h.Prev.SwapInQ+h.Prev.SwapOutQ+h.Cur.SwapInQ+h.Cur.SwapOutQ > 0 {
		return nil
	}
	var out []Violation
	for i := range h.Cur.Pools {
		p := &h.Cur.Pools[i]
		q := h.Prev.Pool(p.PoolId)
		if q == nil {
			continue
		}
		if q.TotalShares.Amount.Equal(p.TotalShares.Amount) && poolReserves(q) == poolReserves(p) {
			continue // nothing happened to this pool
		}
		if perpPoolOf(h.Prev, p.PoolId) || perpPoolOf(h.Cur, p.PoolId) {
			h.Labels[lbl+"-pool-has-perp-exposure"]++
			continue
		}
		if !p.PoolParams.UseOracle && hasAccountedPool(h.Cur, p.PoolId) {
			// a leveraged pool that governance switched to constant-product pricing: its swaps are priced on the accounted
			// balances, and the swap-fee conversion inside a swap meets them before the hooks have refreshed them. What
			// leaves the pool beyond the curve goes to the fee revenue, not to the trader (whose payout c03FirstSwaps
			// judges); the statement is about the trader's rate, so the per-share measure is not applied here
			h.Labels[lbl+"-constant-product-pool-with-accounted-balances"]++
			continue
		}
		if q.PoolParams.UseOracle != p.PoolParams.UseOracle {
			h.Labels[lbl+"-pool-changed-its-pricing-mode"]++ // the two measures are not comparable (see c03FirstSwaps)
			continue
		}
		// oracle prices of the pool's assets unchanged
		same := true
		if p.PoolParams.UseOracle {
			for _, a := range p.PoolAssets {
				if !snapshotPrice(h.Prev, a.Token.Denom).Equal(snapshotPrice(h.Cur, a.Token.Denom)) {
					same = false
				}
			}
		}
		if !same {
			continue
		}
		before, ok1 := c05Value(h.Prev, q)
		after, ok2 := c05Value(h.Cur, p)
		if !ok1 || !ok2 {
			continue
		}
		h.Labels[lbl+"-judged-pool-blocks"]++
		if p.TotalShares.Amount.LT(q.TotalShares.Amount) {
			h.Labels[lbl+"-judged-after-exit"]++
		}
		// allowance: every operation (txs plus what the leveragelp sweep may have closed; a 2-hop swap touches
		// two pools once each) may round by one base unit of each asset; the power approximation by 1e-8
		n := float64(nOps + 3)
		allow := n * (math.Max(before.unit, after.unit) + 1e-8)
		var drop float64
		if before.oracle {
			drop = (before.val - after.val) / before.val
		} else {
			drop = before.val - after.val // difference of logs = relative change
		}
		if drop > allow {
			kind := "constant-product (weighted-product invariant per share)"
			if before.oracle {
				kind = "oracle (reserves at oracle prices per share)"
			}
			out = append(out, Violation{Sig: sig, Detail: fmt.Sprintf("pool %d %s: value per share fell by a fraction %.3e (allowed %.3e) in a block with %s at unchanged prices; shares %s -> %s, reserves %s -> %s (height %d; %s)",
				p.PoolId, kind, drop, allow, what, q.TotalShares.Amount, p.TotalShares.Amount, poolReserves(q), poolReserves(p), h.Cur.Height, blockSummary(blk))})
		}
	}
	return out
}

func poolReserves(p *ammtypes.Pool) string {
	s := ""
	for i, a := range p.PoolAssets {
		if i > 0 {
			s += ","
		}
		s += a.Token.String() + "(w" + a.Weight.String() + ")"
	}
	return s
}

// perpPoolOf reports whether the perpetual pool of amm pool id has any liabilities or custody.
func perpPoolOf(s *Snapshot, id uint64) bool {
	for _, m := range s.MTPs {
		if m.AmmPoolId == id {
			return true
		}
	}
	return false
}

func hasAccountedPool(s *Snapshot, id uint64) bool {
	for _, ap := range s.Accounted {
		if ap.PoolId == id {
			return true
		}
	}
	return false
}
