package harness

import (
	"errors"
	"fmt"

	sdk "github.com/cosmos/cosmos-sdk/types"
)

// ErrEnvRefused: the chain itself refused an environment action (a governance message rejected by its
// validation or handler). In a replay that means the trace's precondition no longer exists.
var ErrEnvRefused = errors.New("environment action refused by the chain")

// ApplyEnv applies an environment action between two blocks on the uncached
// working state (it is committed with the next block).
//
//	gov_msg: args.msg = interface-JSON of an sdk.Msg whose authority is the gov
//	         module address; executed through the app's real message router.
func ApplyEnv(w *World, e EnvAction) error {
	switch e.Kind {
	case "gov_msg":
		var msg sdk.Msg
		if err := w.App.AppCodec().UnmarshalInterfaceJSON([]byte(e.Args["msg"]), &msg); err != nil {
			return fmt.Errorf("decode gov msg: %w", err)
		}
		if err := w.ExecGov(msg); err != nil {
			return fmt.Errorf("%w: %v", ErrEnvRefused, err)
		}
		return nil
	case "noop":
		return nil
	}
	return fmt.Errorf("unknown env action %q", e.Kind)
}

// ExecGov runs a message through the real router on the uncached state.
func (w *World) ExecGov(msg sdk.Msg) error {
	if vb, ok := msg.(sdk.HasValidateBasic); ok {
		if err := vb.ValidateBasic(); err != nil {
			return fmt.Errorf("gov msg ValidateBasic: %w", err)
		}
	}
	h := w.App.MsgServiceRouter().Handler(msg)
	if h == nil {
		return fmt.Errorf("no handler for %s", sdk.MsgTypeURL(msg))
	}
	ctx := w.SetupCtx()
	cctx, write := ctx.CacheContext()
	if _, err := h(cctx, msg); err != nil {
		return fmt.Errorf("gov msg %s: %w", sdk.MsgTypeURL(msg), err)
	}
	write()
	return nil
}

// GovEnv wraps a message into a replayable env action.
func (w *World) GovEnv(msg sdk.Msg) EnvAction {
	js, err := w.App.AppCodec().MarshalInterfaceJSON(msg)
	if err != nil {
		panic(err)
	}
	return EnvAction{Kind: "gov_msg", Args: map[string]string{"msg": string(js)}}
}
