package harness

import (
	"sort"
	"time"

	sdkmath "cosmossdk.io/math"
	sdk "github.com/cosmos/cosmos-sdk/types"
	banktypes "github.com/cosmos/cosmos-sdk/x/bank/types"

	aptypes "github.com/elys-network/elys/x/accountedpool/types"
	ammtypes "github.com/elys-network/elys/x/amm/types"
	ctypes "github.com/elys-network/elys/x/commitment/types"
	lptypes "github.com/elys-network/elys/x/leveragelp/types"
	mctypes "github.com/elys-network/elys/x/masterchef/types"
	oracletypes "github.com/elys-network/elys/x/oracle/types"
	perptypes "github.com/elys-network/elys/x/perpetual/types"
	sstypes "github.com/elys-network/elys/x/stablestake/types"
	tstypes "github.com/elys-network/elys/x/tradeshield/types"
)

// Snapshot is a typed read of the committed state after a block.
type Snapshot struct {
	Height int64
	Time   time.Time

	Pools    []ammtypes.Pool
	DenomLiq map[string]sdkmath.Int
	Bal      map[string]sdk.Coins // every address with a balance
	Supply   sdk.Coins

	Commitments  []*ctypes.Commitments
	CommitParams ctypes.Params

	SSParams sstypes.Params
	Debts    []sstypes.Debt

	LPPools     []lptypes.Pool
	LPPositions []lptypes.Position
	LPOpenCount uint64

	PerpPools    []perptypes.Pool
	MTPs         []perptypes.MTP
	MTPOpenCount uint64
	PerpParams   perptypes.Params
	LPParams     lptypes.Params

	Accounted []aptypes.AccountedPool

	MCParams      mctypes.Params
	MCPoolInfos   []mctypes.PoolInfo
	MCPoolRewards []mctypes.PoolRewardInfo
	MCUserRewards []mctypes.UserRewardInfo
	MCIncentives  []mctypes.ExternalIncentive

	SpotOrders []tstypes.SpotOrder
	PerpOrders []tstypes.PerpetualOrder

	Prices   []oracletypes.Price
	SwapInQ  int
	SwapOutQ int
}

func (w *World) Snapshot() *Snapshot {
	ctx := w.ReadCtx()
	a := w.App
	s := &Snapshot{Height: w.Height, Time: w.Time, DenomLiq: map[string]sdkmath.Int{}, Bal: map[string]sdk.Coins{}}
	s.Pools = a.AmmKeeper.GetAllPool(ctx)
	sort.Slice(s.Pools, func(i, j int) bool { return s.Pools[i].PoolId < s.Pools[j].PoolId })
	for _, dl := range a.AmmKeeper.GetAllDenomLiquidity(ctx) {
		s.DenomLiq[dl.Denom] = dl.Liquidity
	}
	a.BankKeeper.IterateAllBalances(ctx, func(addr sdk.AccAddress, c sdk.Coin) bool {
		k := addr.String()
		s.Bal[k] = s.Bal[k].Add(c)
		return false
	})
	sup, _, err := a.BankKeeper.GetPaginatedTotalSupply(ctx, nil)
	_ = banktypes.ModuleName
	if err == nil {
		s.Supply = sup
	}
	s.Commitments = a.CommitmentKeeper.GetAllCommitments(ctx)
	s.CommitParams = a.CommitmentKeeper.GetParams(ctx)
	s.SSParams = a.StablestakeKeeper.GetParams(ctx)
	s.Debts = a.StablestakeKeeper.GetAllDebts(ctx)
	s.LPPools = a.LeveragelpKeeper.GetAllPools(ctx)
	s.LPPositions = a.LeveragelpKeeper.GetAllPositions(ctx)
	s.LPOpenCount = a.LeveragelpKeeper.GetOpenPositionCount(ctx)
	s.LPParams = a.LeveragelpKeeper.GetParams(ctx)
	s.PerpPools = a.PerpetualKeeper.GetAllPools(ctx)
	s.MTPs = a.PerpetualKeeper.GetAllMTPs(ctx)
	s.MTPOpenCount = a.PerpetualKeeper.GetOpenMTPCount(ctx)
	s.PerpParams = a.PerpetualKeeper.GetParams(ctx)
	s.Accounted = a.AccountedPoolKeeper.GetAllAccountedPool(ctx)
	s.MCParams = a.MasterchefKeeper.GetParams(ctx)
	s.MCPoolInfos = a.MasterchefKeeper.GetAllPoolInfos(ctx)
	s.MCPoolRewards = a.MasterchefKeeper.GetAllPoolRewardInfos(ctx)
	s.MCUserRewards = a.MasterchefKeeper.GetAllUserRewardInfos(ctx)
	s.MCIncentives = a.MasterchefKeeper.GetAllExternalIncentives(ctx)
	s.SpotOrders = a.TradeshieldKeeper.GetAllPendingSpotOrder(ctx)
	s.PerpOrders = a.TradeshieldKeeper.GetAllPendingPerpetualOrder(ctx)
	s.Prices = a.OracleKeeper.GetAllPrice(ctx)
	s.SwapInQ = len(a.AmmKeeper.GetAllSwapExactAmountInRequests(ctx))
	s.SwapOutQ = len(a.AmmKeeper.GetAllSwapExactAmountOutRequests(ctx))
	return s
}

func (s *Snapshot) BalOf(addr, denom string) sdkmath.Int {
	return s.Bal[addr].AmountOf(denom)
}

func (s *Snapshot) Pool(id uint64) *ammtypes.Pool {
	for i := range s.Pools {
		if s.Pools[i].PoolId == id {
			return &s.Pools[i]
		}
	}
	return nil
}

// Committed returns creator -> denom -> committed amount.
func (s *Snapshot) CommittedOf(addr, denom string) sdkmath.Int {
	for _, c := range s.Commitments {
		if c.Creator == addr {
			for _, ct := range c.CommittedTokens {
				if ct.Denom == denom {
					return ct.Amount
				}
			}
		}
	}
	return sdkmath.ZeroInt()
}
