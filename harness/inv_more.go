package harness

import (
	"fmt"
	"os"
	"strings"

	sdkmath "cosmossdk.io/math"
	sdk "github.com/cosmos/cosmos-sdk/types"

	ammtypes "github.com/elys-network/elys/x/amm/types"
	ctypes "github.com/elys-network/elys/x/commitment/types"
	lptypes "github.com/elys-network/elys/x/leveragelp/types"
	mctypes "github.com/elys-network/elys/x/masterchef/types"
	ptypes "github.com/elys-network/elys/x/parameter/types"
	perptypes "github.com/elys-network/elys/x/perpetual/types"
	sstypes "github.com/elys-network/elys/x/stablestake/types"
)

// ---------------------------------------------------------------- C08

func CheckC08(h *History, blk *BlockRecord) []Violation {
	s := h.Cur
	var out []Violation
	sum := map[uint64]sdkmath.Int{}
	seen, _ := h.Ext["lp-addrs"].(map[string]uint64)
	if seen == nil {
		seen = map[string]uint64{}
		h.Ext["lp-addrs"] = seen
	}
	live := map[string]bool{}
	for _, p := range s.LPPositions {
		if _, ok := sum[p.AmmPoolId]; !ok {
			sum[p.AmmPoolId] = sdkmath.ZeroInt()
		}
		sum[p.AmmPoolId] = sum[p.AmmPoolId].Add(p.LeveragedLpAmount)
		paddr := p.GetPositionAddress().String()
		seen[paddr] = p.AmmPoolId
		live[paddr] = true
		com := s.CommittedOf(paddr, ammtypes.GetPoolShareDenom(p.AmmPoolId))
		if !com.Equal(p.LeveragedLpAmount) {
			out = append(out, Violation{Sig: "C08/position-shares!=committed", Detail: fmt.Sprintf("position %d (owner %s) LeveragedLpAmount=%s committed at its address=%s (height %d; %s)", p.Id, h.W.nameOf(p.Address), p.LeveragedLpAmount, com, s.Height, blockSummary(blk))})
		}
		if p.LeveragedLpAmount.IsNegative() {
			out = append(out, Violation{Sig: "C08/position-negative", Detail: fmt.Sprintf("stored position %d has LeveragedLpAmount=%s", p.Id, p.LeveragedLpAmount)})
		}
		if p.LeveragedLpAmount.IsZero() {
			h.Labels["lp-position-with-zero-shares"]++ // odd (dust open on a drained pool) but not excluded by the statement
		}
	}
	for _, lp := range s.LPPools {
		want, ok := sum[lp.AmmPoolId]
		if !ok {
			want = sdkmath.ZeroInt()
		}
		if !lp.LeveragedLpAmount.Equal(want) {
			out = append(out, Violation{Sig: "C08/pool-total!=sum", Detail: fmt.Sprintf("pool %d LeveragedLpAmount=%s Σpositions=%s (height %d; %s)", lp.AmmPoolId, lp.LeveragedLpAmount, want, s.Height, blockSummary(blk))})
		}
	}
	if s.LPOpenCount != uint64(len(s.LPPositions)) {
		out = append(out, Violation{Sig: "C08/open-count", Detail: fmt.Sprintf("OpenPositionCount=%d stored positions=%d (height %d; %s)", s.LPOpenCount, len(s.LPPositions), s.Height, blockSummary(blk))})
	}
	for _, addr := range sortedKeys(seen) {
		if live[addr] {
			continue
		}
		com := s.CommittedOf(addr, ammtypes.GetPoolShareDenom(seen[addr]))
		if !com.IsZero() {
			out = append(out, Violation{Sig: "C08/leftover-shares", Detail: fmt.Sprintf("closed position address %s still has %s committed shares of pool %d (height %d)", addr, com, seen[addr], s.Height)})
		}
	}
	return out
}

func (w *World) nameOf(addr string) string {
	if a := w.ByAddr[addr]; a != nil {
		return a.Name
	}
	return addr
}

// ---------------------------------------------------------------- C09

type aggKey struct {
	pool  uint64
	long  bool
	denom string
}

func CheckC09(h *History, blk *BlockRecord) []Violation {
	s := h.Cur
	var out []Violation
	cust, liab, coll := map[aggKey]sdkmath.Int{}, map[aggKey]sdkmath.Int{}, map[aggKey]sdkmath.Int{}
	add := func(m map[aggKey]sdkmath.Int, k aggKey, v sdkmath.Int) {
		if cur, ok := m[k]; ok {
			m[k] = cur.Add(v)
		} else {
			m[k] = v
		}
	}
	for _, m := range s.MTPs {
		long := m.Position == perptypes.Position_LONG
		add(cust, aggKey{m.AmmPoolId, long, m.CustodyAsset}, m.Custody)
		add(liab, aggKey{m.AmmPoolId, long, m.LiabilitiesAsset}, m.Liabilities)
		add(coll, aggKey{m.AmmPoolId, long, m.CollateralAsset}, m.Collateral)
		if m.Custody.IsNegative() || m.Liabilities.IsNegative() || m.Collateral.IsNegative() {
			out = append(out, Violation{Sig: "C09/mtp-negative", Detail: fmt.Sprintf("mtp %d custody=%s liabilities=%s collateral=%s", m.Id, m.Custody, m.Liabilities, m.Collateral)})
		}
	}
	get := func(m map[aggKey]sdkmath.Int, k aggKey) sdkmath.Int {
		if v, ok := m[k]; ok {
			return v
		}
		return sdkmath.ZeroInt()
	}
	for _, pp := range s.PerpPools {
		totalCust := map[string]sdkmath.Int{}
		for side, assets := range map[bool][]perptypes.PoolAsset{true: pp.PoolAssetsLong, false: pp.PoolAssetsShort} {
			sideName := "short"
			if side {
				sideName = "long"
			}
			for _, a := range assets {
				k := aggKey{pp.AmmPoolId, side, a.AssetDenom}
				if c := get(cust, k); !a.Custody.Equal(c) {
					out = append(out, Violation{Sig: "C09/custody!=sum", Detail: fmt.Sprintf("pool %d %s %s pool.Custody=%s Σmtp=%s (height %d; %s)", pp.AmmPoolId, sideName, a.AssetDenom, a.Custody, c, s.Height, blockSummary(blk))})
				}
				if l := get(liab, k); !a.Liabilities.Equal(l) {
					out = append(out, Violation{Sig: "C09/liabilities!=sum", Detail: fmt.Sprintf("pool %d %s %s pool.Liabilities=%s Σmtp=%s (height %d; %s)", pp.AmmPoolId, sideName, a.AssetDenom, a.Liabilities, l, s.Height, blockSummary(blk))})
				}
				if c := get(coll, k); !a.Collateral.Equal(c) {
					out = append(out, Violation{Sig: "C09/collateral!=sum", Detail: fmt.Sprintf("pool %d %s %s pool.Collateral=%s Σmtp=%s (height %d; %s)", pp.AmmPoolId, sideName, a.AssetDenom, a.Collateral, c, s.Height, blockSummary(blk))})
				}
				if a.Custody.IsNegative() || a.Liabilities.IsNegative() || a.Collateral.IsNegative() {
					out = append(out, Violation{Sig: "C09/aggregate-negative", Detail: fmt.Sprintf("pool %d %s %s custody=%s liabilities=%s collateral=%s", pp.AmmPoolId, sideName, a.AssetDenom, a.Custody, a.Liabilities, a.Collateral)})
				}
				if cur, ok := totalCust[a.AssetDenom]; ok {
					totalCust[a.AssetDenom] = cur.Add(a.Custody)
				} else {
					totalCust[a.AssetDenom] = a.Custody
				}
			}
		}
		if amm := s.Pool(pp.AmmPoolId); amm != nil {
			for _, d := range sortedKeys(totalCust) {
				if res := reserveOf(amm, d); res.LT(totalCust[d]) {
					out = append(out, Violation{Sig: "C09/custody-unbacked", Detail: fmt.Sprintf("pool %d %s reserve=%s < total custody=%s (height %d; %s)", pp.AmmPoolId, d, res, totalCust[d], s.Height, blockSummary(blk))})
				}
			}
		}
	}
	// MTPs on pools without a perpetual pool record
	if s.MTPOpenCount != uint64(len(s.MTPs)) {
		out = append(out, Violation{Sig: "C09/open-count", Detail: fmt.Sprintf("OpenMTPCount=%d stored MTPs=%d (height %d; %s)", s.MTPOpenCount, len(s.MTPs), s.Height, blockSummary(blk))})
	}
	return out
}

// ---------------------------------------------------------------- C11

func CheckC11(h *History, blk *BlockRecord) []Violation {
	s := h.Cur
	var out []Violation
	for _, ap := range s.Accounted {
		amm := s.Pool(ap.PoolId)
		if amm == nil {
			continue
		}
		var pp *perptypes.Pool
		for i := range s.PerpPools {
			if s.PerpPools[i].AmmPoolId == ap.PoolId {
				pp = &s.PerpPools[i]
			}
		}
		for _, tok := range ap.TotalTokens {
			L, C := sdkmath.ZeroInt(), sdkmath.ZeroInt()
			if pp != nil {
				for _, a := range append(append([]perptypes.PoolAsset{}, pp.PoolAssetsLong...), pp.PoolAssetsShort...) {
					if a.AssetDenom == tok.Denom {
						L = L.Add(a.Liabilities)
						C = C.Add(a.Custody)
					}
				}
			}
			res := reserveOf(amm, tok.Denom)
			want := res.Add(L).Sub(C)
			if !tok.Amount.Equal(want) {
				out = append(out, Violation{Sig: "C11/total!=reserve+L-C", Detail: fmt.Sprintf("pool %d %s accounted=%s reserve=%s liabilities=%s custody=%s expected=%s diff=%s (height %d; %s)", ap.PoolId, tok.Denom, tok.Amount, res, L, C, want, tok.Amount.Sub(want), s.Height, blockSummary(blk))})
			}
			for _, na := range ap.NonAmmPoolTokens {
				if na.Denom == tok.Denom && !na.Amount.Equal(L.Sub(C)) {
					out = append(out, Violation{Sig: "C11/non-amm!=L-C", Detail: fmt.Sprintf("pool %d %s non-amm=%s liabilities=%s custody=%s (height %d; %s)", ap.PoolId, tok.Denom, na.Amount, L, C, s.Height, blockSummary(blk))})
				}
			}
		}
	}
	return out
}

// ---------------------------------------------------------------- C12

type lockRec struct {
	Amount sdkmath.Int
	Unlock int64
}

func isLedgerOnly(denom string) bool { return denom == ptypes.Eden || denom == ptypes.EdenB }

func CheckC12(h *History, blk *BlockRecord) []Violation {
	s := h.Cur
	var out []Violation
	sum := map[string]sdkmath.Int{}
	claimed := map[string]sdkmath.Int{}
	for _, c := range s.Commitments {
		for _, ct := range c.CommittedTokens {
			if ct.Amount.IsNegative() {
				out = append(out, Violation{Sig: "C12/committed-negative", Detail: fmt.Sprintf("%s %s %s", c.Creator, ct.Denom, ct.Amount)})
			}
			locked := sdkmath.ZeroInt()
			for _, l := range ct.Lockups {
				locked = locked.Add(l.Amount)
			}
			if cur, ok := sum[ct.Denom]; ok {
				sum[ct.Denom] = cur.Add(ct.Amount)
			} else {
				sum[ct.Denom] = ct.Amount
			}
		}
		for _, cl := range c.Claimed {
			if cur, ok := claimed[cl.Denom]; ok {
				claimed[cl.Denom] = cur.Add(cl.Amount)
			} else {
				claimed[cl.Denom] = cl.Amount
			}
		}
	}
	denoms := map[string]bool{}
	for d := range sum {
		denoms[d] = true
	}
	for _, c := range s.CommitParams.TotalCommitted {
		denoms[c.Denom] = true
	}
	cmod := modAddr(ctypes.ModuleName)
	for _, d := range sortedKeys(denoms) {
		want, ok := sum[d]
		if !ok {
			want = sdkmath.ZeroInt()
		}
		got := s.CommitParams.TotalCommitted.AmountOf(d)
		// known finding F04 (open): Keeper.UncommitTokens ADDS the uncommitted amount to
		// TotalCommitted. The harness measures every uncommit (bank transfers out of the
		// commitment custody for bank-backed denoms, successful MsgUncommitTokens for
		// Eden/EdenB) and tolerates exactly that drift (2x the uncommitted amount) and
		// nothing else; drift 0 (a repaired tree) is of course accepted too.
		if FindingOpen("F04") {
			u := uncommittedSoFar(h, blk)[d]
			if !u.IsNil() && u.IsPositive() && got.Sub(want).Equal(u.MulRaw(2)) {
				h.Known["F04"] = true
				h.Excluded["F04:total-drift-compensated"]++
				got = want
			}
		}
		if !got.Equal(want) {
			sign := "total>sum"
			if got.LT(want) {
				sign = "total<sum"
			}
			out = append(out, Violation{Sig: "C12/" + sign, Detail: fmt.Sprintf("denom %s TotalCommitted=%s Σaccounts=%s (height %d; %s)", d, got, want, s.Height, blockSummary(blk))})
		}
		if !isLedgerOnly(d) {
			need := want
			if cl, ok := claimed[d]; ok {
				need = need.Add(cl)
			}
			if bal := s.BalOf(cmod, d); bal.LT(need) {
				out = append(out, Violation{Sig: "C12/custody-short", Detail: fmt.Sprintf("denom %s custody=%s < committed+claimed=%s (height %d; %s)", d, bal, need, s.Height, blockSummary(blk))})
			}
		}
	}
	// lock model (harness' own observations): a committed increase of an oracle-pool
	// share denom at a keyed user is locked for one hour from the block time.
	locks, _ := h.Ext["locks"].(map[string][]lockRec)
	if locks == nil {
		locks = map[string][]lockRec{}
		h.Ext["locks"] = locks
	}
	if h.Prev == nil {
		// what keyed accounts (the pools' creator above all) hold of oracle-pool shares when the history starts was
		// committed during the setup, i.e. not before the genesis time: locked at least until genesis + 1h
		for _, p := range s.Pools {
			if !p.PoolParams.UseOracle {
				continue
			}
			d := ammtypes.GetPoolShareDenom(p.PoolId)
			for _, a := range h.W.AllKeyed() {
				if have := s.CommittedOf(a.Addr.String(), d); have.IsPositive() {
					key := a.Addr.String() + "|" + d
					locks[key] = append(locks[key], lockRec{Amount: have, Unlock: GenesisTime.Unix() + 3600})
				}
			}
		}
	}
	if h.Prev != nil {
		now := s.Time.Unix()
		for _, p := range s.Pools {
			if !p.PoolParams.UseOracle {
				continue
			}
			d := ammtypes.GetPoolShareDenom(p.PoolId)
			for _, a := range h.W.AllKeyed() {
				addr := a.Addr.String()
				before, after := h.Prev.CommittedOf(addr, d), s.CommittedOf(addr, d)
				key := addr + "|" + d
				if after.LT(before) {
					need := sdkmath.ZeroInt()
					for _, l := range locks[key] {
						if l.Unlock > now {
							need = need.Add(l.Amount)
						}
					}
					h.Labels["uncommit-with-model-locks"] += btoi(need.IsPositive())
					if after.LT(need) {
						out = append(out, Violation{Sig: "C12/lock-bypassed", Detail: fmt.Sprintf("%s withdrew %s of %s to %s while %s is still locked (height %d; %s)", a.Name, before.Sub(after), d, after, need, s.Height, blockSummary(blk))})
					}
				}
				if after.GT(before) {
					locks[key] = append(locks[key], lockRec{Amount: after.Sub(before), Unlock: now + 3600})
				}
			}
		}
	}
	out = append(out, c12PositionLocks(h, blk)...)
	return out
}

// c12PositionLocks: the committed LP shares of a leveragelp position sit at the position's own address
// under the same one-hour lock. Only a liquidation (the begin-block sweep, MsgClosePositions) may take
// them out early; the owner's own MsgClose may not. The locks are read from the ledger of the previous
// block; a block counts against the owner when it holds a successful MsgClose of that position by its
// owner and no liquidation request naming it.
func c12PositionLocks(h *History, blk *BlockRecord) []Violation {
	if h.Prev == nil {
		return nil
	}
	var out []Violation
	now := uint64(h.Cur.Time.Unix())
	for _, pos := range h.Prev.LPPositions {
		ownerClosed, liquidated := false, false
		for _, tx := range blk.Txs {
			if tx.Code != 0 {
				continue
			}
			switch m := tx.Msg.(type) {
			case *lptypes.MsgClose:
				if m.Id == pos.Id && m.Creator == pos.Address {
					ownerClosed = true
				}
			case *lptypes.MsgClosePositions:
				for _, r := range append(append([]*lptypes.PositionRequest{}, m.Liquidate...), m.StopLoss...) {
					if r != nil && r.Id == pos.Id && r.Address == pos.Address {
						liquidated = true
					}
				}
			}
		}
		// a position that owes nothing can never be liquidatable: whoever asks and however (a liquidation request naming
		// it, the sweep), its locked shares stay where they are; with debt, only the owner's own close is judged here
		// (whether a third party's liquidation was justified is C10's question)
		debtFree := pos.Liabilities.IsZero()
		if debtFree {
			h.Labels["lp-debt-free-position-blocks"]++
		}
		if !debtFree && (!ownerClosed || liquidated) {
			continue
		}
		pa := pos.GetPositionAddress().String()
		d := ammtypes.GetPoolShareDenom(pos.AmmPoolId)
		locked := sdkmath.ZeroInt()
		for _, c := range h.Prev.Commitments {
			if c.Creator != pa {
				continue
			}
			for _, ct := range c.CommittedTokens {
				if ct.Denom != d {
					continue
				}
				for _, l := range ct.Lockups {
					if l.UnlockTimestamp > now {
						locked = locked.Add(l.Amount)
					}
				}
			}
		}
		if !locked.IsPositive() {
			continue
		}
		if ownerClosed {
			h.Labels["lp-owner-close-under-lock"]++
		}
		after := h.Cur.CommittedOf(pa, d)
		if after.LT(locked) && debtFree && !ownerClosed {
			out = append(out, Violation{Sig: "C12/position-lock-bypassed", Detail: fmt.Sprintf("leveragelp position %d of %s owes nothing (it can never be liquidatable), yet committed %s at its address went from %s to %s although %s is locked until after this block's time (height %d; %s)",
				pos.Id, h.W.nameOf(pos.Address), d, h.Prev.CommittedOf(pa, d), after, locked, h.Cur.Height, blockSummary(blk))})
			continue
		}
		if after.LT(locked) {
			out = append(out, Violation{Sig: "C12/position-lock-bypassed", Detail: fmt.Sprintf("owner %s closed leveragelp position %d by MsgClose and took committed %s at the position address from %s to %s although %s is locked until after this block's time (height %d; %s)",
				h.W.nameOf(pos.Address), pos.Id, d, h.Prev.CommittedOf(pa, d), after, locked, h.Cur.Height, blockSummary(blk))})
		}
	}
	return out
}

func btoi(b bool) int {
	if b {
		return 1
	}
	return 0
}

// ---------------------------------------------------------------- C13

// userPendingRewards recomputes credited-but-unclaimed per (holder, pool, reward denom) from the stores:
// RewardPending + (acc*committed - RewardDebt)/1e18, the formula ClaimRewards itself applies.
// Also returns committed reward-bearing shares per "holder|pool" and acc-per-share per "pool|denom".
func userPendingRewards(s *Snapshot) (pend map[string]sdkmath.LegacyDec, shares map[string]sdkmath.Int, acc map[string]sdkmath.LegacyDec) {
	acc = map[string]sdkmath.LegacyDec{} // pool|denom -> acc per share
	denomsOf := map[uint64]map[string]bool{}
	for _, pr := range s.MCPoolRewards {
		acc[fmt.Sprintf("%d|%s", pr.PoolId, pr.RewardDenom)] = pr.PoolAccRewardPerShare
		if denomsOf[pr.PoolId] == nil {
			denomsOf[pr.PoolId] = map[string]bool{}
		}
		denomsOf[pr.PoolId][pr.RewardDenom] = true
	}
	info := map[string]mctypes.UserRewardInfo{}
	for _, u := range s.MCUserRewards {
		info[fmt.Sprintf("%s|%d|%s", u.User, u.PoolId, u.RewardDenom)] = u
		if denomsOf[u.PoolId] == nil {
			denomsOf[u.PoolId] = map[string]bool{}
		}
		denomsOf[u.PoolId][u.RewardDenom] = true
	}
	pend = map[string]sdkmath.LegacyDec{}
	shares = map[string]sdkmath.Int{}
	one := ammtypes.OneShare
	for _, c := range s.Commitments {
		for _, ct := range c.CommittedTokens {
			var poolID uint64
			if ct.Denom == sstypes.GetShareDenom() {
				poolID = uint64(sstypes.PoolId)
			} else if strings.HasPrefix(ct.Denom, "amm/pool/") {
				id, err := ammtypes.GetPoolIdFromShareDenom(ct.Denom)
				if err != nil {
					continue
				}
				poolID = id
			} else {
				continue
			}
			shares[fmt.Sprintf("%s|%d", c.Creator, poolID)] = ct.Amount
			for d := range denomsOf[poolID] {
				k := fmt.Sprintf("%s|%d|%s", c.Creator, poolID, d)
				a, ok := acc[fmt.Sprintf("%d|%s", poolID, d)]
				if !ok {
					a = sdkmath.LegacyZeroDec()
				}
				debt, pnd := sdkmath.LegacyZeroDec(), sdkmath.LegacyZeroDec()
				if u, ok := info[k]; ok {
					debt, pnd = u.RewardDebt, u.RewardPending
				}
				pend[k] = pnd.Add(a.MulInt(ct.Amount).Sub(debt).QuoInt(one))
			}
		}
	}
	for k, u := range info {
		if _, done := pend[k]; !done {
			// user has no committed shares left: pending + (0 - debt)/1e18
			pend[k] = u.RewardPending.Sub(u.RewardDebt.QuoInt(one))
		}
	}
	return pend, shares, acc
}

// pendingRewards: Σ credited-but-unclaimed per reward denom.
func pendingRewards(s *Snapshot) map[string]sdkmath.LegacyDec {
	pend, _, _ := userPendingRewards(s)
	total := map[string]sdkmath.LegacyDec{}
	for _, k := range sortedKeys(pend) {
		d := k[strings.LastIndex(k, "|")+1:]
		if cur, ok := total[d]; ok {
			total[d] = cur.Add(pend[k])
		} else {
			total[d] = pend[k]
		}
	}
	return total
}

// c13Accrual: "rewards accrue only for the blocks during which shares were committed; committing just
// before a distribution earns nothing from earlier blocks". The accumulator moves only in the
// end-blocker, after every tx of the block, so for every (holder, pool, denom) – bank-backed or not –
//
//	credited(end of N) <= credited(end of N-1) + (acc_N - acc_{N-1}) * shares(end of N) / 1e18
//
// (claims only lower the left side; deposits and withdrawals checkpoint and leave it unchanged).
func c13Accrual(h *History, blk *BlockRecord) []Violation {
	pendCur, sharesCur, accCur := userPendingRewards(h.Cur)
	defer func() { h.Ext["c13-user"] = [3]interface{}{pendCur, sharesCur, accCur} }()
	prev, ok := h.Ext["c13-user"].([3]interface{})
	if !ok {
		return nil
	}
	pendPrev, accPrev := prev[0].(map[string]sdkmath.LegacyDec), prev[2].(map[string]sdkmath.LegacyDec)
	var out []Violation
	eps := sdkmath.LegacyNewDecWithPrec(1, 9)
	one := ammtypes.OneShare
	for _, k := range sortedKeys(pendCur) {
		parts := strings.SplitN(k, "|", 3)
		holder, pool, denom := parts[0], parts[1], parts[2]
		before, ok := pendPrev[k]
		if !ok {
			before = sdkmath.LegacyZeroDec()
		}
		dAcc := sdkmath.LegacyZeroDec()
		if a, ok := accCur[pool+"|"+denom]; ok {
			dAcc = a
		}
		if a, ok := accPrev[pool+"|"+denom]; ok {
			dAcc = dAcc.Sub(a)
		}
		sh, ok := sharesCur[holder+"|"+pool]
		if !ok {
			sh = sdkmath.ZeroInt()
		}
		earned := dAcc.MulInt(sh).QuoInt(one)
		if earned.IsPositive() {
			h.Labels["c13-accrual-checked"]++
			if _, had := pendPrev[k]; !had || before.IsZero() {
				h.Labels["c13-accrual-newcomer"]++
			}
		}
		if pendCur[k].GT(before.Add(earned).Add(eps)) {
			out = append(out, Violation{Sig: "C13/credited-more-than-accrued", Detail: fmt.Sprintf("%s in pool %s, reward %s: credited-unclaimed went %s -> %s in one block, but with %s committed shares at the distribution and acc-per-share moving by %s only %s accrued (height %d; %s)",
				h.W.nameOf(holder), pool, denom, before, pendCur[k], sh, dAcc, earned, h.Cur.Height, blockSummary(blk))})
		}
	}
	return out
}

func CheckC13(h *History, blk *BlockRecord) []Violation {
	s := h.Cur
	var out []Violation
	pend := pendingRewards(s)
	mc := modAddr(mctypes.ModuleName)
	denoms := map[string]bool{}
	for d := range pend {
		denoms[d] = true
	}
	remaining := map[string]sdkmath.Int{}
	for _, inc := range s.MCIncentives {
		from := inc.FromBlock
		if s.Height > from {
			from = s.Height
		}
		if inc.ToBlock > from {
			r := inc.AmountPerBlock.MulRaw(inc.ToBlock - from)
			if cur, ok := remaining[inc.RewardDenom]; ok {
				remaining[inc.RewardDenom] = cur.Add(r)
			} else {
				remaining[inc.RewardDenom] = r
			}
		}
		denoms[inc.RewardDenom] = true
	}
	if os.Getenv("VERIF_DEBUG_C13") != "" {
		fmt.Fprintf(os.Stderr, "h=%d bal=%s pend=%v in=%s out=%s\n", s.Height, s.Bal[mc], pend, TransfersTo(blk, mc), TransfersFrom(blk, mc))
		for _, e := range allEvents(blk) {
			if e.Type == "transfer" && (attr(e, "sender") == mc || attr(e, "recipient") == mc) {
				fmt.Fprintf(os.Stderr, "    %s -> %s %s\n", attr(e, "sender"), attr(e, "recipient"), attr(e, "amount"))
			}
		}
	}
	prevSurplus, _ := h.Ext["c13-surplus"].(map[string]sdkmath.LegacyDec)
	cur := map[string]sdkmath.LegacyDec{}
	for _, d := range sortedKeys(denoms) {
		if isLedgerOnly(d) {
			continue
		}
		bal := s.BalOf(mc, d)
		p, ok := pend[d]
		if !ok {
			p = sdkmath.LegacyZeroDec()
		}
		rem, ok := remaining[d]
		if !ok {
			rem = sdkmath.ZeroInt()
		}
		surplus := bal.ToLegacyDec().Sub(p).Sub(rem.ToLegacyDec())
		cur[d] = surplus
		if surplus.IsNegative() {
			out = append(out, Violation{Sig: "C13/insolvent", Detail: fmt.Sprintf("reward denom %s: module balance=%s < credited-unclaimed=%s + unfunded incentive remainder=%s (shortfall %s; height %d; %s)", d, bal, p, rem, surplus.Neg(), s.Height, blockSummary(blk))})
		} else if prevSurplus != nil {
			// the bookkeeping runs on 18-digit fixed-point numbers and every checkpoint (deposit, withdrawal,
			// claim) may round the last digit either way: 1e-9 of a base unit per block is far below anything a
			// claim can ever pay (claims truncate to whole units) and far above that rounding
			if ps, ok := prevSurplus[d]; ok && surplus.LT(ps.Sub(sdkmath.LegacyNewDecWithPrec(1, 9))) {
				out = append(out, Violation{Sig: "C13/surplus-decreased", Detail: fmt.Sprintf("reward denom %s: balance−credited−incentives fell %s -> %s in one block (credited more than collected; height %d; %s)", d, ps, surplus, s.Height, blockSummary(blk))})
			}
		}
	}
	h.Ext["c13-surplus"] = cur
	out = append(out, c13Accrual(h, blk)...)
	return out
}

// ---------------------------------------------------------------- C15

func isShareDenom(d string) bool {
	return strings.HasPrefix(d, "amm/pool/") || d == sstypes.GetShareDenom()
}

// CheckC15: supply ledger per denom across the block.
func CheckC15(h *History, blk *BlockRecord) []Violation {
	if h.Prev == nil {
		return nil
	}
	s := h.Cur
	var out []Violation
	denoms := map[string]bool{}
	for _, c := range s.Supply {
		denoms[c.Denom] = true
	}
	for _, c := range h.Prev.Supply {
		denoms[c.Denom] = true
	}
	has := func(suffixes ...string) bool {
		for _, tx := range blk.Txs {
			if tx.Code != 0 {
				continue
			}
			for _, sfx := range suffixes {
				if strings.HasSuffix(tx.MsgType, sfx) {
					return true
				}
			}
		}
		return false
	}
	// explicit burns: what owners sent to the zero address leaves it only through the burner module (nobody holds
	// that key), which destroys it at the end of its epoch. That amount is taken out of the comparison for every
	// denom – the owner destroyed these tokens, the protocol did not – and everything else must balance exactly.
	burnt := TransfersFrom(blk, sdk.AccAddress(make([]byte, 20)).String())
	for _, c := range burnt {
		denoms[c.Denom] = true
		h.Labels["burner-burnt/"+c.Denom]++
	}
	out = append(out, c15EdenLedger(h, blk)...)
	for _, d := range sortedKeys(denoms) {
		before, after := h.Prev.Supply.AmountOf(d), s.Supply.AmountOf(d)
		after = after.Add(burnt.AmountOf(d)) // supply as it would be without the explicit burn
		// standard governance burns (the deposit of a vetoed proposal) are burns by the gov module account
		if gb := BurnedBy(blk)[GovAddr()].AmountOf(d); gb.IsPositive() {
			after = after.Add(gb)
			h.Labels["gov-deposit-burnt/"+d]++
		}
		if before.Equal(after) {
			continue
		}
		delta := after.Sub(before)
		switch {
		case d == ptypes.Elys:
			if delta.IsPositive() {
				if maxMint := vestingReleaseBound(h, blk); delta.GT(maxMint) {
					out = append(out, Violation{Sig: "C15/native-minted-beyond-vesting", Detail: fmt.Sprintf("uelys supply +%s > vesting releases possible in this block %s (height %d; %s)", delta, maxMint, s.Height, blockSummary(blk))})
				}
			} else {
				out = append(out, Violation{Sig: "C15/native-burned", Detail: fmt.Sprintf("uelys supply %s without a burner/gov burn (height %d; %s)", delta, s.Height, blockSummary(blk))})
			}
		case strings.HasPrefix(d, "amm/pool/"):
			// C02's rule decides direction; here only that some join/exit-type event exists
			id, _ := ammtypes.GetPoolIdFromShareDenom(d)
			up, down := shareMovers(h, blk, id)
			if (delta.IsPositive() && !up) || (delta.IsNegative() && !down) {
				out = append(out, Violation{Sig: "C15/share-supply-moved", Detail: fmt.Sprintf("%s supply %s without a join/exit (height %d; %s)", d, delta, s.Height, blockSummary(blk))})
			}
			// "minted only against deposits": the pool's own book says how many shares its deposits have earned
			if p := s.Pool(id); p != nil && after.GT(p.TotalShares.Amount) {
				out = append(out, Violation{Sig: "C15/pool-shares-minted-beyond-deposits", Detail: fmt.Sprintf("%s: %s share tokens exist but the pool's deposits account for %s (height %d; %s)", d, after, p.TotalShares.Amount, s.Height, blockSummary(blk))})
			}
		case d == sstypes.GetShareDenom():
			if (delta.IsPositive() && !has("stablestake.MsgBond")) || (delta.IsNegative() && !has("stablestake.MsgUnbond")) {
				out = append(out, Violation{Sig: "C15/share-supply-moved", Detail: fmt.Sprintf("%s supply %s without bond/unbond (height %d; %s)", d, delta, s.Height, blockSummary(blk))})
			}
			out = append(out, c15VaultShares(h, blk, before, after)...)
		default:
			out = append(out, Violation{Sig: "C15/external-supply-changed", Detail: fmt.Sprintf("denom %s supply %s -> %s (%s) (height %d; %s)", d, before, after, delta, s.Height, blockSummary(blk))})
		}
	}
	return out
}

// edenLedgerTotal: all Eden in existence. Eden lives only in the commitment ledger: claimed and committed Eden of
// every holder (module accounts included) plus the not-yet-released part of every Eden->ELYS vesting entry.
func edenLedgerTotal(s *Snapshot) sdkmath.Int {
	t := sdkmath.ZeroInt()
	for _, c := range s.Commitments {
		t = t.Add(c.Claimed.AmountOf(ptypes.Eden))
		for _, ct := range c.CommittedTokens {
			if ct.Denom == ptypes.Eden {
				t = t.Add(ct.Amount)
			}
		}
		for _, v := range c.VestingTokens {
			if v != nil && v.Denom == ptypes.Elys && v.TotalAmount.GT(v.ClaimedAmount) {
				t = t.Add(v.TotalAmount.Sub(v.ClaimedAmount))
			}
		}
	}
	return t
}

// edenOf: one holder's Eden (see edenLedgerTotal).
func edenOf(s *Snapshot, addr string) sdkmath.Int {
	t := sdkmath.ZeroInt()
	for _, c := range s.Commitments {
		if c.Creator != addr {
			continue
		}
		t = t.Add(c.Claimed.AmountOf(ptypes.Eden))
		for _, ct := range c.CommittedTokens {
			if ct.Denom == ptypes.Eden {
				t = t.Add(ct.Amount)
			}
		}
		for _, v := range c.VestingTokens {
			if v != nil && v.Denom == ptypes.Elys && v.TotalAmount.GT(v.ClaimedAmount) {
				t = t.Add(v.TotalAmount.Sub(v.ClaimedAmount))
			}
		}
	}
	return t
}

// c15EdenLedger: native tokens are minted only as vesting releases, and every released unit consumes one unit of
// Eden from the ledger – so nobody may conjure Eden either. Moving Eden between claimed, committed and vesting
// (vest, cancel, commit, uncommit, stake) conserves the ledger total; releases and vest-now lower it; the only
// inflow is the protocol's per-block reward mint, bounded by the inflation schedule in force. The total may
// therefore never grow by more than that mint within one block.
func c15EdenLedger(h *History, blk *BlockRecord) []Violation {
	before, after := edenLedgerTotal(h.Prev), edenLedgerTotal(h.Cur)
	ctx := h.W.ReadCtx()
	perYear := uint64(0)
	for _, inf := range h.W.App.TokenomicsKeeper.GetAllTimeBasedInflation(ctx) {
		if inf.Inflation != nil && inf.StartBlockHeight <= uint64(h.Cur.Height) && uint64(h.Prev.Height) <= inf.EndBlockHeight {
			perYear += inf.Inflation.LmRewards + inf.Inflation.IcsStakingRewards + inf.Inflation.CommunityFund + inf.Inflation.StrategicReserve + inf.Inflation.TeamTokensVested
		}
	}
	bpy := h.W.App.ParameterKeeper.GetParams(ctx).TotalBlocksPerYear
	if bpy == 0 {
		return nil
	}
	// twice the scheduled amount per block plus a few units of rounding
	bound := sdkmath.NewIntFromUint64(perYear).QuoRaw(int64(bpy)).MulRaw(2).AddRaw(10)
	h.Labels["c15-eden-ledger-checked"]++
	// the same per holder, exactly: an account whose only successful transactions in the block move Eden between
	// claimed, committed and vesting (vest, cancel, claim vesting, vest-now) and that owns no
	// leveraged position (whose forced close would pay rewards out to it) has no Eden inflow at all
	var out []Violation
	for _, a := range h.W.Accounts {
		addr := a.Addr.String()
		moves, other := 0, 0
		for _, tx := range blk.Txs {
			if tx.Code != 0 || tx.Signer != a.Name {
				continue
			}
			switch tx.Msg.(type) {
			case *ctypes.MsgVest, *ctypes.MsgCancelVest, *ctypes.MsgClaimVesting, *ctypes.MsgVestNow:
				// (commit / uncommit / stake are NOT in this set: committed Eden is a virtual delegation, changing it makes
				// the distribution hooks pay the delegator's accrued staking rewards – Eden included – on the spot)
				moves++
			default:
				other++
			}
		}
		if moves == 0 || other > 0 {
			continue
		}
		owns := false
		for _, p := range h.Prev.LPPositions {
			if p.Address == addr {
				owns = true
			}
		}
		if owns {
			continue
		}
		qb, qa := edenOf(h.Prev, addr), edenOf(h.Cur, addr)
		h.Labels["c15-eden-holder-checked"]++
		if qa.GT(qb) {
			out = append(out, Violation{Sig: "C15/eden-conjured", Detail: fmt.Sprintf("%s's Eden (claimed + committed + unreleased vesting) grew %s -> %s in a block in which it only moved Eden between claimed and vesting (vest / cancel / claim vesting / vest-now): Eden that can be vested into native tokens came from nowhere (height %d; %s)",
				a.Name, qb, qa, h.Cur.Height, blockSummary(blk))})
		}
	}
	if len(out) > 0 {
		return out
	}
	if growth := after.Sub(before); growth.GT(bound) {
		return []Violation{{Sig: "C15/eden-conjured", Detail: fmt.Sprintf("the Eden ledger total (claimed + committed + unreleased vesting, all holders) grew %s -> %s (+%s) in one block; the inflation schedule mints at most %s per block – Eden that can be vested into native tokens came from nowhere (height %d; %s)",
			before, after, growth, bound, h.Cur.Height, blockSummary(blk))}}
	}
	return nil
}

// c15VaultShares: vault shares are "minted only against deposits": what the block minted (supply change
// plus the shares its unbonds burnt) is at most Σ deposits / redemption rate. The rate only moves up
// inside a block (interest being booked), apart from one unit of rounding per operation, so the lower of
// the two boundary rates bounds it; blocks in which the supply may have passed through dust (where one
// unit of rounding is a visible fraction of the rate) are not judged.
func c15VaultShares(h *History, blk *BlockRecord, supBefore, supAfter sdkmath.Int) []Violation {
	bonded, burnt, n := sdkmath.ZeroInt(), sdkmath.ZeroInt(), int64(0)
	for _, tx := range blk.Txs {
		if tx.Code != 0 {
			continue
		}
		switch m := tx.Msg.(type) {
		case *sstypes.MsgBond:
			bonded = bonded.Add(m.Amount)
			n++
		case *sstypes.MsgUnbond:
			burnt = burnt.Add(m.Amount)
			n++
		}
	}
	low := sdkmath.MinInt(supBefore, supAfter).Sub(burnt)
	if low.LT(sdkmath.NewInt(1_000_000)) {
		h.Labels["c15-vault-dust-not-judged"]++
		return nil
	}
	rate := func(s *Snapshot, sup sdkmath.Int) sdkmath.LegacyDec {
		return s.SSParams.TotalValue.ToLegacyDec().QuoInt(sup)
	}
	r := sdkmath.LegacyMinDec(rate(h.Prev, supBefore), rate(h.Cur, supAfter))
	if !r.IsPositive() {
		return nil
	}
	// rounding: n+1 units on the rate's numerator relative to the lowest supply, plus one share per op
	r = r.Sub(sdkmath.LegacyNewDec(n + 1).QuoInt(low))
	if !r.IsPositive() {
		return nil
	}
	minted := supAfter.Sub(supBefore).Add(burnt)
	maxMint := bonded.ToLegacyDec().Quo(r).Ceil().TruncateInt().AddRaw(n + 1)
	h.Labels["c15-vault-mint-judged"]++
	if r.GT(sdkmath.LegacyMustNewDecFromStr("1.000001")) && bonded.IsPositive() {
		h.Labels["c15-vault-mint-judged-rate>1"]++
	}
	if minted.GT(maxMint) {
		return []Violation{{Sig: "C15/vault-shares-minted-beyond-deposits", Detail: fmt.Sprintf("stablestake shares minted in this block %s (supply %s -> %s, %s burnt by unbonds) exceed deposits %s / redemption rate %s = %s (height %d; %s)",
			minted, supBefore, supAfter, burnt, bonded, r, maxMint, h.Cur.Height, blockSummary(blk))}}
	}
	return nil
}

// vestingReleaseBound: the most uelys this block's vesting releases can mint, from the
// pre-block ledger and the linear schedule at the new height:
//   - every account that sent a successful MsgClaimVesting, and the provider-reward
//     module account (claimed by the chain itself in the epoch hook), may receive
//     Σ_i max(0, ⌊total_i·min(h−start_i, n_i)/n_i⌋ − claimed_i) over its pre-block entries
//     (entries created in this block have vested nothing; a cancel only lowers it);
//   - every successful MsgVestNow mints ⌊amount/factor⌋.
func vestingReleaseBound(h *History, blk *BlockRecord) sdkmath.Int {
	bound := sdkmath.ZeroInt()
	claimers := map[string]bool{modAddr("cons_to_send_to_provider"): true}
	for _, tx := range blk.Txs {
		if tx.Code != 0 {
			continue
		}
		if m, ok := tx.Msg.(*ctypes.MsgClaimVesting); ok {
			claimers[m.Sender] = true
		}
		if m, ok := tx.Msg.(*ctypes.MsgVestNow); ok {
			for _, vi := range h.Prev.CommitParams.VestingInfos {
				if vi.BaseDenom == m.Denom && vi.VestNowFactor.IsPositive() {
					bound = bound.Add(m.Amount.Quo(vi.VestNowFactor))
				}
			}
		}
	}
	height := h.Cur.Height
	for _, c := range h.Prev.Commitments {
		if !claimers[c.Creator] {
			continue
		}
		for _, v := range c.VestingTokens {
			if v.Denom != ptypes.Elys || v.NumBlocks <= 0 {
				continue
			}
			el := height - v.StartBlock
			if el > v.NumBlocks {
				el = v.NumBlocks
			}
			if el < 0 {
				el = 0
			}
			vested := v.TotalAmount.MulRaw(el).QuoRaw(v.NumBlocks)
			if vested.GT(v.ClaimedAmount) {
				bound = bound.Add(vested.Sub(v.ClaimedAmount))
			}
		}
	}
	return bound
}

var _ = sdk.Coins{}

// uncommittedSoFar accumulates, per denom, the amount that went through
// commitment.UncommitTokens in this history (measured from bank transfer events and
// successful MsgUncommitTokens txs). Called once per block by CheckC12.
func uncommittedSoFar(h *History, blk *BlockRecord) map[string]sdkmath.Int {
	acc, _ := h.Ext["uncommitted"].(map[string]sdkmath.Int)
	if acc == nil {
		acc = map[string]sdkmath.Int{}
		h.Ext["uncommitted"] = acc
	}
	if done, _ := h.Ext["uncommitted-height"].(int64); done == blk.Height {
		return acc
	}
	h.Ext["uncommitted-height"] = blk.Height
	add := func(d string, a sdkmath.Int) {
		if cur, ok := acc[d]; ok {
			acc[d] = cur.Add(a)
		} else {
			acc[d] = a
		}
	}
	cmod := modAddr(ctypes.ModuleName)
	for _, c := range TransfersFrom(blk, cmod) {
		if !isLedgerOnly(c.Denom) {
			add(c.Denom, c.Amount)
		}
	}
	for _, tx := range blk.Txs {
		if m, ok := tx.Msg.(*ctypes.MsgUncommitTokens); ok && tx.Code == 0 {
			add(m.Denom, m.Amount)
		}
		// MsgUnstake of Eden / EdenB is an uncommit of that amount through the same keeper function
		if m, ok := tx.Msg.(*ctypes.MsgUnstake); ok && tx.Code == 0 && isLedgerOnly(m.Asset) {
			add(m.Asset, m.Amount)
		}
	}
	return acc
}

// c13Drain: every holder of reward-bearing shares (users directly, leveragelp position addresses
// through MsgClaimRewards of their owners) claims everything, in a generated order, one tx each.
func c13Drain(h *History, g *G) []*Op {
	s := h.Cur
	var ops []*Op
	var poolIDs []uint64
	for _, p := range s.Pools {
		poolIDs = append(poolIDs, p.PoolId)
	}
	poolIDs = append(poolIDs, uint64(sstypes.PoolId))
	users := append([]*Account{}, h.W.Accounts...)
	users = append(users, h.W.Admin)
	for len(users) > 0 {
		k := g.Pick("drain/who", len(users))
		u := users[k]
		users = append(users[:k], users[k+1:]...)
		ops = append(ops, &Op{Signer: u, Kind: "drain.masterchef_claim", Msg: &mctypes.MsgClaimRewards{Sender: u.Addr.String(), PoolIds: poolIDs}})
	}
	for _, p := range s.LPPositions {
		if a := h.W.ByAddr[p.Address]; a != nil {
			ops = append(ops, &Op{Signer: a, Kind: "drain.leveragelp_claim", Msg: &lptypes.MsgClaimRewards{Sender: a.Addr.String(), Ids: []uint64{p.Id}}})
		}
	}
	return ops
}

// c13Final: every claim of the drain must have succeeded ("every claim succeeds whatever the order").
func c13Final(h *History) []Violation {
	if len(h.Trace.Blocks) == 0 || h.Trace.Blocks[len(h.Trace.Blocks)-1].Tag != "final" {
		return nil
	}
	var out []Violation
	for _, tx := range h.Trace.Blocks[len(h.Trace.Blocks)-1].Txs {
		if strings.HasPrefix(tx.Kind, "drain.") {
			h.Labels["c13-drain-claims"]++
			// only a claim that cannot be PAID is the property's business (a position swept away by the
			// block's own begin-blocker, a sequence race etc. are not)
			if tx.Code != 0 && (strings.Contains(tx.Log, "insufficient") || strings.Contains(tx.Log, "is smaller than")) {
				out = append(out, Violation{Sig: "C13/claim-failed-in-drain", Detail: fmt.Sprintf("%s's claim in the closing drain failed: %s", tx.Signer, shorten(tx.Log, 300))})
			}
		}
	}
	return out
}
