# Per-property check table used by ./check. quick/thorough override shards/checks/env.
def e1(func, profile, qchecks=640, qshards=16, tchecks=3200, tshards=16, qblocks=100, tblocks=200, **kw):
    d = dict(func=func, profile=profile,
             quick=dict(checks=qchecks, shards=qshards, timeout=1200, env={"VERIF_BLOCKS_PCT": qblocks}),
             thorough=dict(checks=tchecks, shards=tshards, timeout=7000, shrinktime="60s", env={"VERIF_BLOCKS_PCT": tblocks}))
    d.update(kw)
    return d

E1_RULE = "rapid-generated multi-block histories of signed txs executed on the real ElysApp through FinalizeBlock/Commit (E1); distinct by hash of the tx sequence; non-trivial = "
E1_ASSUME = ["single-chain behaviour; IBC/ICS provider packets, band callbacks and upgrade handlers are not generated",
             "worlds have 2-3 pools over uusdc/uatom/uelys/uusdt, 5 users, a feeder and a bot; histories are bounded (<= ~100 blocks, <= 6 txs per block)"]

CHECKS = {
    "C01": dict(tests=[e1("TestC01", "amm-mixed")], assumptions=E1_ASSUME + ["harness-known third-party sends are the only out-of-protocol donations"],
                rule=E1_RULE + "amm writers AND perpetual/leveragelp writers on pools and >=10 successful pool-mutating txs"),
    "C02": dict(tests=[e1("TestC02", "shares")], assumptions=E1_ASSUME,
                rule=E1_RULE + ">=1 join, >=1 exit and >=1 leveragelp open/close, all successful"),
    "C06": dict(tests=[e1("TestC06", "lending")], assumptions=E1_ASSUME,
                rule=E1_RULE + ">=1 repay (close / forced close) after >=1h of accrual and >=1 bond/unbond while a loan is outstanding"),
    "C08": dict(tests=[e1("TestC08", "leveragelp")], assumptions=E1_ASSUME,
                rule=E1_RULE + ">=1 forced close, >=1 partial close and >=1 consolidating open"),
    "C09": dict(tests=[e1("TestC09", "perpetual")], assumptions=E1_ASSUME,
                rule=E1_RULE + "long and short MTPs coexisting across a >=1h gap (interest/funding settlement) and >=1 partial close"),
    "C11": dict(tests=[e1("TestC11", "accounted")], assumptions=E1_ASSUME + ["EnableTakeProfitCustodyLiabilities stays false (default), the configuration in which the statement's formula is the code's formula"],
                rule=E1_RULE + "amm writers and perpetual writers on the same pool incl. >=1 block whose last pool writer was a perpetual handler"),
    "C12": dict(tests=[e1("TestC12", "commitments")], assumptions=E1_ASSUME,
                rule=E1_RULE + ">=1 successful uncommit-type op after a commit of the same denom and >=1 withdrawal rejected inside the 1h lock window"),
    "C13": dict(tests=[e1("TestC13", "rewards")], assumptions=E1_ASSUME,
                rule=E1_RULE + "revenue collected in >=3 blocks, >=1 deposit and >=1 successful claim"),
    "C15": dict(tests=[e1("TestC15", "everything")], assumptions=E1_ASSUME,
                rule=E1_RULE + ">=30 successful txs from >=5 modules and >=1 gap >= 1 day (epoch boundary)"),
    "C18": dict(tests=[e1("TestC18", "faults")], assumptions=E1_ASSUME + ["parameters are drawn only from what each module's Validate/ValidateBasic admits"],
                rule=E1_RULE + ">=1 block processed while a listed asset had no live price, >=1 gap >= 1 day and >=1 leveraged position opened"),
}
