# Per-property check table used by ./check. quick/thorough override shards/checks/env.
def e1(func, profile, qchecks=640, qshards=16, tchecks=3200, tshards=16, qblocks=100, tblocks=200, **kw):
    d = dict(func=func, profile=profile,
             quick=dict(checks=qchecks, shards=qshards, timeout=1200, env={"VERIF_BLOCKS_PCT": qblocks}),
             thorough=dict(checks=tchecks, shards=tshards, timeout=7000, shrinktime="60s", env={"VERIF_BLOCKS_PCT": tblocks}))
    d.update(kw)
    return d

E1_RULE = "rapid-generated multi-block histories of signed txs executed on the real ElysApp through FinalizeBlock/Commit (E1); distinct by hash of the tx sequence; non-trivial = "
E1_ASSUME = ["single-chain behaviour; IBC/ICS provider packets, band callbacks and upgrade handlers are not generated",
             "worlds have 2-3 pools over uusdc/uatom/uelys/uusdt, 5 users, a feeder and a bot; histories are bounded (<= ~100 blocks, <= 6 txs per block)"]

CHECKS = {
    "C01": dict(tests=[e1("TestC01", "amm-mixed")], assumptions=E1_ASSUME + ["harness-known third-party sends are the only out-of-protocol donations"],
                rule=E1_RULE + "amm writers AND perpetual/leveragelp writers on pools and >=10 successful pool-mutating txs"),
    "C02": dict(tests=[e1("TestC02", "shares")], assumptions=E1_ASSUME,
                rule=E1_RULE + ">=1 join, >=1 exit and >=1 leveragelp open/close, all successful"),
    "C06": dict(tests=[e1("TestC06", "lending")], assumptions=E1_ASSUME,
                rule=E1_RULE + ">=1 repay (close / forced close) after >=1h of accrual and >=1 bond/unbond while a loan is outstanding"),
    "C07": dict(tests=[dict(func="TestC07", quick=dict(checks=4800, shards=16, timeout=900), thorough=dict(checks=160000, shards=16, timeout=7000)),
                       e1("TestC07Chain", "vault-chain", qchecks=320, tchecks=1600)],
                assumptions=E1_ASSUME + ["keeper-level part (E3): MsgBond/MsgUnbond through the real router, Borrow/Repay through the stablestake keeper (their only production caller is leveragelp), interest accrual by the real BeginBlocker + UpdateInterestAndGetDebt on cache contexts",
                             "rounding allowance = one share's worth rounded up plus one base unit, as stated in the property"],
                rule="E3: rapid-generated op sequences bond/unbond/borrow/repay/accrue/round-trip on vaults from 1 to 1e12 base units with 4 lenders; non-trivial = a round trip at a redemption rate with >= 6 fractional digits or a granted borrow at utilisation >= 80%; distinct by op sequence. E1 part: " + E1_RULE + "fractional share value, bonds, an unbond and a granted loan"),
    "C08": dict(tests=[e1("TestC08", "leveragelp")], assumptions=E1_ASSUME,
                rule=E1_RULE + ">=1 forced close, >=1 partial close and >=1 consolidating open"),
    "C09": dict(tests=[e1("TestC09", "perpetual")], assumptions=E1_ASSUME,
                rule=E1_RULE + "long and short MTPs coexisting across a >=1h gap (interest/funding settlement) and >=1 partial close"),
    "C11": dict(tests=[e1("TestC11", "accounted")], assumptions=E1_ASSUME + ["EnableTakeProfitCustodyLiabilities stays false (default), the configuration in which the statement's formula is the code's formula"],
                rule=E1_RULE + "amm writers and perpetual writers on the same pool incl. >=1 block whose last pool writer was a perpetual handler"),
    "C12": dict(tests=[e1("TestC12", "commitments")], assumptions=E1_ASSUME,
                rule=E1_RULE + ">=1 successful uncommit-type op after a commit of the same denom and >=1 withdrawal rejected inside the 1h lock window"),
    "C13": dict(tests=[e1("TestC13", "rewards")], assumptions=E1_ASSUME,
                rule=E1_RULE + "revenue collected in >=3 blocks, >=1 deposit and >=1 successful claim"),
    "C14": dict(tests=[dict(func="TestC14", quick=dict(checks=16000, shards=16, timeout=900), thorough=dict(checks=800000, shards=16, timeout=7000))],
                assumptions=["keeper-level (E3): messages go through the real router and msg servers on cache contexts of one prepared app; block height is moved on the context (no begin/end blockers are involved in vesting)",
                             "one owner; vesting-info parameters are changed only to values MsgUpdateVestingInfo.ValidateBasic admits"],
                rule="rapid-generated op sequences (vest / claim / cancel / vest-now / advance k blocks / governance change of length, max vestings, factor) executed on the real commitment msg servers and on a reference model, compared after every op; non-trivial = sequence containing claim -> cancel -> claim with the last claim strictly inside a schedule; distinct by op sequence"),
    "C16": dict(tests=[dict(func="TestC16", quick=dict(checks=16000, shards=16, timeout=900), thorough=dict(checks=400000, shards=16, timeout=7000))],
                assumptions=["keeper-level (E3): real oracle msg servers through the app's router and the real EndBlock on cache contexts of one prepared app",
                             "asset and source names come from a hand-built colliding alphabet; band IBC callbacks are not generated"],
                rule="rapid-generated op sequences (feeds by feeders and non-feeders, feeder (de)activation/removal, governance-only messages by gov and by others, asset infos, parameter changes, end-blocks with time gaps, lookups) against a reference map of live prices; every asset of the alphabet is looked up after every end-block; non-trivial = a lookup of an asset with no live price of its own while a key that collides with its prefix is live; distinct by op sequence"),
    "C15": dict(tests=[e1("TestC15", "everything")], assumptions=E1_ASSUME,
                rule=E1_RULE + ">=30 successful txs from >=5 modules and >=1 gap >= 1 day (epoch boundary)"),
    "C04": dict(tests=[e1("TestC04", "swap-batch")], assumptions=E1_ASSUME + ["requesters submit only swap requests in a block and their recipients are themselves or passive accounts, so balance changes are attributable"],
                rule=E1_RULE + "a sender with >=2 accepted requests in one block or an accepted request that could not be executed at end-block, and >=1 two-hop request"),
    "C17": dict(tests=[dict(func="TestC17", quick=dict(checks=16000, shards=16, timeout=900), thorough=dict(checks=400000, shards=16, timeout=7000))],
                assumptions=["keeper-level (E3): handlers are called directly (without ValidateBasic, which could only reject more) on cache contexts of a world in which a victim owns a pending spot order, a pending perpetual order, an MTP and a leveragelp position",
                             "governance class = every /elys.* Msg implementation in the app's interface registry that has a router handler and a string field Authority (x/parameter: Creator); MsgCreateAssetInfo and MsgAddEntry carry no authority field in this snapshot and are reported as permissionless by construction"],
                rule="message types enumerated from the running app; payload filled by reflection with generated values (Params seeded from the module's stored params in 2/3 of the cases); authority drawn from {user, module account, other module, empty, malformed, gov+suffix}; owner class: attacker-signed update/cancel/close/claim naming the victim's ids; non-trivial = (type, bad-sender kind) pair whose message passes ValidateBasic; distinct by that pair"),
    "C18": dict(tests=[e1("TestC18", "faults")], assumptions=E1_ASSUME + ["parameters are drawn only from what each module's Validate/ValidateBasic admits"],
                rule=E1_RULE + ">=1 block processed while a listed asset had no live price, >=1 gap >= 1 day and >=1 leveraged position opened"),
    "C19": dict(tests=[
                    dict(func="TestC19", profile="determinism",
                         quick=dict(checks=96, shards=16, timeout=1500, env={"VERIF_BLOCKS_PCT": 100}),
                         thorough=dict(checks=640, shards=16, timeout=7000, env={"VERIF_BLOCKS_PCT": 200, "VERIF_C19_TRACEDIR": "{wdir}/c19-traces-{shard}"})),
                    dict(func="TestC19CrossProcess", profile="determinism", stage=1, nocount=True,
                         quick=dict(skip=True),
                         thorough=dict(shards=16, checks=1, timeout=7000, env={"VERIF_C19_TRACEDIR": "{wdir}/c19-traces-{shard}"})),
                ],
                assumptions=E1_ASSUME + ["a restart is modelled by discarding the application object and rebuilding it from the same (in-memory) database; block execution is single-threaded"],
                rule=E1_RULE + ">=20 blocks, >=1 gap >= 1 day and >=1 swap batch with >=2 accepted requests; each history is re-executed by a fresh replica and by a replica restarted at generated heights (thorough: after every height, plus a replay in a separate OS process)"),
}
