# Per-property check table used by ./check. quick/thorough override shards/checks/env.
def e1(func, profile, qchecks=24, qshards=8, tchecks=480, tshards=16, qblocks=100, tblocks=250, **kw):
    d = dict(func=func, profile=profile,
             quick=dict(checks=qchecks, shards=qshards, timeout=900, env={"VERIF_BLOCKS_PCT": qblocks}),
             thorough=dict(checks=tchecks, shards=tshards, timeout=6000, shrinktime="300s", env={"VERIF_BLOCKS_PCT": tblocks}))
    d.update(kw)
    return d

CHECKS = {
    "C01": dict(
        tests=[e1("TestC01", "amm-mixed")],
        rule="rapid-generated multi-block histories of signed txs on the real app (E1); non-trivial = history with amm writers AND perpetual/leveragelp writers on pools and >=10 successful pool-mutating txs; distinct by hash of the tx sequence",
        assumptions=["single-chain behaviour; IBC/ICS packets not generated", "harness-known third-party sends are the only out-of-protocol donations"],
    ),
}
