#!/usr/bin/env python3
"""Seeded-change tooling.
  seeded.py confirm <PID> [name]   verify a sub-agent's deliverable in its scratch worktree /tmp/seed-<PID>
                                   (demo fails with the patch, passes without; touched packages' own tests pass
                                   with the patch) and store it as /verif/seeded/<name>/
  seeded.py detect <name> [PID ...] [--tier quick|thorough] [--seed N]
                                   apply /verif/seeded/<name>/patch.diff to /repo, run the named checks
                                   (default: the property it breaks), record the outcome in meta.json, undo.
"""
import json, os, re, shutil, subprocess, sys, time
ENV = dict(os.environ, GOFLAGS="-mod=mod", GOPROXY="off", GOSUMDB="off", GOTOOLCHAIN="local")

def sh(cmd, cwd, timeout=3600):
    r = subprocess.run(cmd, cwd=cwd, env=ENV, shell=True, capture_output=True, text=True, timeout=timeout)
    return r.returncode, (r.stdout + r.stderr)

def confirm(pid, name=None):
    name = name or pid + "-1"
    wt, out = f"/tmp/seed-{pid}", f"/tmp/seed-{pid}-out"
    meta = json.load(open(f"{out}/meta.json"))
    demo_path = meta["demo_path"]
    pkgs = sorted({"./" + os.path.dirname(f) + "/..." for f in meta.get("touched_files", []) if f.endswith(".go")})
    pkgs = sorted({re.sub(r"^(\./x/[^/]+)/.*", r"\1/...", p) for p in pkgs})
    demo_pkg = "./" + os.path.dirname(demo_path)
    log = {}
    # state: patch applied + demo in place
    rc, o = sh("git diff --stat", wt); log["diff_stat"] = o.strip()
    if not os.path.exists(f"{wt}/{demo_path}"):
        shutil.copyfile(f"{out}/demo_test.go", f"{wt}/{demo_path}")
    run = meta.get("demo_run") or f"go test -vet=off -count=1 {demo_pkg}"
    rc1, o1 = sh(run, wt); log["demo_with_patch"] = "FAIL" if rc1 != 0 else "PASS"
    # existing tests with the patch, demo moved away
    shutil.move(f"{wt}/{demo_path}", f"{out}/_demo_tmp.go")
    rc2, o2 = sh("go build ./... && go test -vet=off -count=1 " + " ".join(pkgs), wt, timeout=5400)
    log["existing_tests_with_patch"] = "ok" if rc2 == 0 else "FAILED: " + o2[-600:]
    shutil.move(f"{out}/_demo_tmp.go", f"{wt}/{demo_path}")
    # without the patch
    sh("git diff > /tmp/seed-%s-out/_patch_again.diff && git checkout -- ." % pid, wt)
    rc3, o3 = sh(run, wt); log["demo_without_patch"] = "PASS" if rc3 == 0 else "FAIL: " + o3[-400:]
    sh("git apply /tmp/seed-%s-out/_patch_again.diff" % pid, wt)
    ok = log["demo_with_patch"] == "FAIL" and log["demo_without_patch"] == "PASS" and log["existing_tests_with_patch"] == "ok"
    log["confirmed"] = ok
    print(json.dumps(log, indent=1))
    if ok:
        d = f"/verif/seeded/{name}"
        os.makedirs(d, exist_ok=True)
        shutil.copyfile(f"{out}/_patch_again.diff", f"{d}/patch.diff")
        shutil.copyfile(f"{out}/demo_test.go", f"{d}/demo_test.go")
        meta["confirmed_by_main"] = dict(what_i_ran=[run + " (with patch: FAIL, without: PASS)", "go build ./... && go test " + " ".join(pkgs) + " (with patch, demo removed: ok)"], **log)
        meta["breaks_property"] = pid
        json.dump(meta, open(f"{d}/meta.json", "w"), indent=1)
    return ok

def detect(name, pids, tier="quick", seed=1):
    """Runs the checks against a scratch worktree of /repo HEAD with the patch applied (VERIF_REPO), so
    that /repo itself stays clean while background runs use it. (The first 13 seeds were additionally
    evaluated the prescribed way: git -C /repo apply; ./check; git -C /repo checkout -- .)"""
    d = f"/verif/seeded/{name}"
    meta = json.load(open(f"{d}/meta.json"))
    pids = pids or [meta["breaks_property"]]
    wt = f"/tmp/seedrun-{name}"
    subprocess.run(["git", "-C", "/repo", "worktree", "remove", "--force", wt], capture_output=True)
    subprocess.run(["git", "-C", "/repo", "worktree", "add", "--detach", wt, "HEAD"], check=True, capture_output=True)
    rc, o = sh(f"git apply {d}/patch.diff", wt)
    if rc != 0:
        print("patch does not apply:", o); return
    res = meta.setdefault("detection", {})
    try:
        for pid in pids:
            t0 = time.time()
            env = dict(os.environ, VERIF_SEED=str(seed), VERIF_REPO=wt)
            # VERIF_SNAP=1: run the checks from a snapshot of the *committed* /verif (so that edits in progress
            # cannot break the build of a detection run)
            vdir = "/verif"
            if os.environ.get("VERIF_SNAP"):
                vdir = f"/verif/.work/snap-{name}"
                shutil.rmtree(vdir, ignore_errors=True); os.makedirs(vdir)
                subprocess.run("git -C /verif archive HEAD | tar -x -C " + vdir, shell=True, check=True)
            r = subprocess.run(["./check", pid, "--tier", tier], cwd=vdir, env=env, capture_output=True, text=True)
            if vdir != "/verif":
                shutil.rmtree(vdir, ignore_errors=True)
            first = [l for l in r.stdout.splitlines() if "VIOLATION" in l][:1]
            # evidence of this run describes the mutated tree: restore the committed file
            subprocess.run(["git", "-C", "/verif", "checkout", "--", f"evidence/{pid}.json"], capture_output=True)
            res[f"{pid}/{tier}/seed{seed}"] = dict(exit=r.returncode, detected=r.returncode == 1, wall_s=round(time.time() - t0, 1), first=(first[0][:400] if first else r.stdout[-300:]))
            print(name, pid, tier, "seed", seed, "->", "DETECTED" if r.returncode == 1 else f"exit {r.returncode}", (first[0][:300] if first else r.stdout[-200:]), flush=True)
    finally:
        subprocess.run(["git", "-C", "/repo", "worktree", "remove", "--force", wt], capture_output=True)
    json.dump(meta, open(f"{d}/meta.json", "w"), indent=1)

if __name__ == "__main__":
    a = sys.argv[1:]
    if a[0] == "confirm":
        sys.exit(0 if confirm(*a[1:]) else 1)
    if a[0] == "detect":
        tier, seed, rest = "quick", 1, []
        i = 1
        while i < len(a):
            if a[i] == "--tier": tier = a[i + 1]; i += 2
            elif a[i] == "--seed": seed = int(a[i + 1]); i += 2
            else: rest.append(a[i]); i += 1
        detect(rest[0], rest[1:], tier, seed)
