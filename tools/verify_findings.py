#!/usr/bin/env python3
"""For every *fixed* finding: check out /repo HEAD into a scratch worktree, revert that fix commit
only, build the harness against the scratch tree and replay the finding's trace/script: it must
report a VIOLATION (the committed replay still reproduces the defect), while on /repo HEAD it must
not. Scratch worktrees live under /tmp and are removed. Usage: verify_findings.py [F01 F02 ...]"""
import json, os, shutil, subprocess, sys
ROOT = "/verif"
kf = json.load(open(f"{ROOT}/known_findings.json"))["findings"]
want = set(sys.argv[1:])
env = dict(os.environ, GOFLAGS="-mod=mod", GOPROXY="off", GOSUMDB="off", GOTOOLCHAIN="local")
TEST = {"C01": "TestC01", "C02": "TestC02", "C04": "TestC04", "C05": "TestC05", "C08": "TestC08", "C11": "TestC11", "C12": "TestC12", "C13": "TestC13",
        "C14": "TestC14", "C16": "TestC16", "C18": "TestC18", "C20": "TestC20", "C10": "TestC10"}
results = {}
for f in kf:
    if f["status"] != "fixed" or (want and f["id"] not in want):
        continue
    wt = f"/tmp/vf-{f['id']}"
    hs = f"/tmp/vf-h-{f['id']}"
    subprocess.run(["git", "-C", "/repo", "worktree", "remove", "--force", wt], capture_output=True)
    shutil.rmtree(hs, ignore_errors=True)
    subprocess.run(["git", "-C", "/repo", "worktree", "add", "--detach", wt, "HEAD"], check=True, capture_output=True)
    r = subprocess.run(["git", "-C", wt, "revert", "--no-commit", f["commit"]], capture_output=True, text=True)
    if r.returncode != 0:
        results[f["id"]] = "REVERT-CONFLICT " + r.stderr[-200:]
        subprocess.run(["git", "-C", "/repo", "worktree", "remove", "--force", wt], capture_output=True)
        continue
    shutil.copytree(f"{ROOT}/harness", hs, ignore=shutil.ignore_patterns("testdata"))
    gm = open(f"{hs}/go.mod").read().replace("github.com/elys-network/elys => /repo", f"github.com/elys-network/elys => {wt}")
    open(f"{hs}/go.mod", "w").write(gm)
    test = TEST[f["property"]]
    e = dict(env, VERIF_REPLAY=f["replay"], VERIF_KNOWN="/nonexistent", VERIF_WORK=f"{hs}/work")
    r = subprocess.run(["go", "test", "-count=1", "-run", f"^{test}$", "."], cwd=hs, env=e, capture_output=True, text=True)
    out = r.stdout + r.stderr
    results[f["id"]] = "reproduces" if "VIOLATION" in out else ("NOT-REPRODUCED: " + out[-300:].replace("\n", " "))
    print(f["id"], f["property"], f["commit"], results[f["id"]][:200], flush=True)
    subprocess.run(["git", "-C", "/repo", "worktree", "remove", "--force", wt], capture_output=True)
    shutil.rmtree(hs, ignore_errors=True)
json.dump(results, open(f"{ROOT}/.work/verify_findings.json", "w"), indent=1)
